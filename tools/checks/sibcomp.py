"""Component `sib` (C04): schemas, edit-script generators, the differential run and the laws on the implementation.

A case is one edit script = one protocol request `<id> sib run <variant> <desc-hex> <yang-hex,...> <script>`; both
sides answer with one result per op (return code, verdict bits of the C-side consistency battery, dump of the forest).
"""
import itertools, random, re
from vlib.proto import hexs, unhex

WB, API = "wb_tree", "api_tree"

# ----------------------------------------------------------------------------------------------- schemas
S1 = ["""module saa { yang-version 1.1; namespace "urn:saa"; prefix a;
  container c {
    leaf a { type string; }
    list sl { key k; leaf k { type int32; } leaf v { type string; } leaf w { type string; } leaf x { type string; } leaf-list il { type int32; } }
    leaf b { type string; }
    list ul { key k; ordered-by user; leaf k { type int32; } leaf v { type string; } }
    leaf-list sll { type int32; }
    leaf e { type string; }
    leaf-list ull { type int32; ordered-by user; }
    list kl { config false; leaf v { type string; } }
    leaf-list stl { config false; type int32; }
    container d { leaf f { type string; } leaf-list g { type string; } }
  }
  leaf t1 { type string; }
  leaf-list tsl { type int32; }
}""", """module sbb { yang-version 1.1; namespace "urn:sbb"; prefix b; import saa { prefix a; }
  augment "/a:c" { leaf z { type string; } leaf-list asl { type string; } }
  leaf-list tb { type string; }
  container cb { leaf h { type string; } }
}"""]

# module name order (sab < szz) differs from load order; string keys
S2 = ["""module szz { yang-version 1.1; namespace "urn:szz"; prefix z;
  leaf-list zl { type string; }
  container c {
    leaf-list sll { type string; }
    list sl { key k; leaf k { type string; } leaf v { type string; } }
    leaf a { type string; }
    leaf-list ull { type string; ordered-by user; }
    leaf b { type string; }
    leaf e { type string; }
  }
  leaf zt { type string; }
}""", """module sab { yang-version 1.1; namespace "urn:sab"; prefix b;
  leaf at { type string; }
  leaf-list al { type uint8; }
  list tl { key k; leaf k { type uint8; } leaf v { type string; } }
}"""]

# nested lists, uint8 keys, top-level list, a default leaf (law mode: implicit)
S3 = ["""module scc { yang-version 1.1; namespace "urn:scc"; prefix c;
  container c {
    leaf-list sll { type uint8; }
    leaf a { type string; }
    list sl { key k; leaf k { type uint8; }
      list in { key k; leaf k { type int32; } leaf v { type string; } }
      leaf-list ill { type uint8; } leaf v { type string; } leaf w { type string; } }
    leaf dv { type string; default "d"; }
  }
  list tl { key k; leaf k { type int32; } leaf v { type string; } }
}"""]

# law mode only (the model has single-key lists): lists with two and three keys of different types, system- and user-ordered,
# nested and top-level; instances are created through key predicates in any order (lyd_new_list2 / lyd_new_path)
S4 = ["""module sdd { yang-version 1.1; namespace "urn:sdd"; prefix d;
  container c {
    leaf a { type string; }
    list m2 { key "a b"; leaf a { type string; } leaf b { type int32; } leaf v { type string; } leaf w { type string; }
      list in { key "x y"; leaf x { type uint8; } leaf y { type string; } leaf v { type string; } } }
    leaf-list sll { type int32; }
    list mu { key "a b"; ordered-by user; leaf a { type int32; } leaf b { type string; } leaf v { type string; } }
    list m3 { key "p q r"; leaf p { type uint8; } leaf q { type string; } leaf r { type int32; } leaf v { type string; } }
    leaf e { type string; }
  }
  list t2 { key "a b"; leaf a { type int32; } leaf b { type string; } leaf v { type string; } }
}"""]

SCHEMAS = {"S1": S1, "S2": S2, "S3": S3, "S4": S4}

POOL = {"i32": ["-3", "0", "1", "2", "3", "4", "5", "7", "9", "10", "200"], "u8": ["0", "1", "2", "3", "4", "5", "7", "9", "10", "200"],
        "str": ["", "a", "B", "aa", "b", "10", "9", "\xc3\xa9"], "-": [""], "oth": [""]}
BAD = {"i32": ["x", "2147483648", "1.5", ""], "u8": ["256", "-1", "x"], "str": [], "-": [], "oth": []}


class Schema:
    def __init__(self, name, yangs, desc):
        self.name, self.yangs, self.desc = name, yangs, desc
        self.yang_tok = ",".join(hexs(y) for y in yangs)
        self.desc_tok = hexs(desc)
        self.ents = []
        for e in desc.split(";"):
            sid, par, mod, nm, kind, kt = e.split(",")
            self.ents.append({"sid": int(sid), "parent": None if par == "-" else int(par), "mod": mod, "name": nm, "kind": kind, "kt": kt})
        self.by_sid = {e["sid"]: e for e in self.ents}

    def children(self, sid):
        return [e for e in self.ents if e["parent"] == sid]

    def qname(self, e):
        return e["mod"] + ":" + e["name"]


_schema_cache = {}


def load_schemas(cx):
    """Ask the harness for the compiled-schema descriptor of every fixed schema set (the model gets it in each request
    and echoes it, so a mismatch between what libyang compiled and what the model assumes is a disagreement)."""
    if _schema_cache:
        return _schema_cache
    lines = ["%d sib run c - %s -" % (i, ",".join(hexs(y) for y in SCHEMAS[n])) for i, n in enumerate(sorted(SCHEMAS))]
    r = cx.run_impl(WB, lines, component="sib")
    for i, n in enumerate(sorted(SCHEMAS)):
        rep = r.get(str(i), ["err"])
        if rep[0] != "ok" or not rep[1].startswith("D="):
            raise RuntimeError("harness cannot load schema %s: %r" % (n, rep))
        _schema_cache[n] = Schema(n, SCHEMAS[n], unhex(rep[1][2:]).decode())
    return _schema_cache


# ----------------------------------------------------------------------------------------------- scripts
def op_new(i, parent, qname, value):
    return "new,%d,%s,%s,%s" % (i, "-" if parent is None else parent, qname, hexs(value))


class Shadow:
    """Approximate picture of the forest used only to steer the generator towards meaningful ops."""

    def __init__(self, sch):
        self.sch = sch
        self.alive = {}      # id -> sid (None = opaque)
        self.parent = {}     # id -> parent id or None

    def add(self, i, sid, parent):
        self.alive[i] = sid
        self.parent[i] = parent
        if sid is not None and self.sch.by_sid[sid]["kind"] in ("ls", "lu"):
            ks = [e for e in self.sch.children(sid) if e["kind"] == "key"]
            if ks:
                self.alive[i + 1000] = ks[0]["sid"]
                self.parent[i + 1000] = i

    def kill(self, i):
        dead = [i]
        for d in dead:
            dead += [c for c, p in self.parent.items() if p == d and c in self.alive and c not in dead]
        for d in dead:
            self.alive.pop(d, None)
            self.parent.pop(d, None)

    def inner(self):
        return [i for i, s in self.alive.items() if s is not None and self.sch.by_sid[s]["kind"] in ("c", "ls", "lu", "ld")]

    def kind(self, i):
        s = self.alive.get(i)
        return None if s is None else self.sch.by_sid[s]["kind"]


def gen_value(rng, kt, bad=0.05):
    if BAD.get(kt) and rng.random() < bad:
        return rng.choice(BAD[kt]).encode("latin1")
    return rng.choice(POOL.get(kt, [""])).encode("latin1")


def random_script(rng, sch, length, nids=12, prefill=0, law=False, values=None):
    """One random edit script. `prefill`: number of children created first under a fresh top container (HT regime)."""
    sh = Shadow(sch)
    ops = []
    free_ids = list(range(1, nids + 1))
    tops = [e for e in sch.ents if e["parent"] is None]

    def fresh():
        c = [i for i in free_ids if i not in sh.alive and (i + 1000) not in sh.alive]
        return rng.choice(c) if c else None

    def new_under(parent_id):
        i = fresh()
        if i is None:
            return False
        if parent_id is None:
            e = rng.choice(tops)
        else:
            ch = sch.children(sh.alive[parent_id])
            if not ch:
                return False
            e = rng.choice(ch)
            if e["kind"] == "key" and not law and rng.random() < 0.9:
                e = rng.choice(ch)
        v = gen_value(rng, e["kt"])
        ops.append(op_new(i, parent_id, sch.qname(e), v))
        if e["kind"] != "key":
            sh.add(i, e["sid"], parent_id)
        return True

    # a container to work in
    conts = [e for e in tops if e["kind"] == "c"]
    if conts and prefill >= 0:
        e = rng.choice(conts)
        i = fresh()
        ops.append(op_new(i, None, sch.qname(e), b""))
        sh.add(i, e["sid"], None)
        for _ in range(prefill):
            new_under(i)
    while len(ops) < length:
        r = rng.random()
        ids = list(sh.alive)
        if law and ids and rng.random() < 0.18:
            # ops outside the model's fragment: judged by the consistency battery only
            k = rng.random()
            auto = [2000 + j for j in range(6)]
            anyid = lambda: rng.choice(ids + auto) if rng.random() < 0.25 else rng.choice(ids)
            if k < 0.35:
                inner = sh.inner()
                p = rng.choice(inner) if inner and rng.random() < 0.6 else None
                ops.append("%s,%d,%s,%d" % (rng.choice(["dup", "dup", "dupsib"]), anyid(), "-" if p is None else p,
                                            rng.choice([1, 1, 1, 0, 5, 9])))
            elif k < 0.7:
                roots = [i for i in ids if sh.parent.get(i) is None]
                if len(roots) >= 2:
                    a, b = rng.sample(roots, 2)
                    ops.append("merge,%d,%d,%d" % (a, b, rng.choice([0, 1, 1, 4])))
                    continue
                ops.append("merge,%d,%d,%d" % (anyid(), anyid(), rng.choice([0, 1])))
            elif k < 0.85:
                ops.append("validate,%d" % anyid())
            else:
                ops.append("implicit,%d" % anyid())
            continue
        if r < 0.30 or not ids:
            inner = sh.inner()
            p = rng.choice(inner) if inner and rng.random() < 0.85 else None
            new_under(p)
        elif r < 0.34:
            i = fresh()
            inner = sh.inner()
            p = rng.choice(inner) if inner and rng.random() < 0.8 else None
            if i is not None:
                ops.append("newopaq,%d,%s,%s,%s" % (i, "-" if p is None else p, rng.choice(["oq", "a", "zz"]), hexs(rng.choice([b"", b"v"]))))
                sh.add(i, None, p)
        elif r < 0.44:
            i = rng.choice(ids)
            ops.append("unlink,%d" % i)
            if sh.kind(i) != "key":
                sh.parent[i] = None
        elif r < 0.52:
            i = rng.choice(ids)
            ops.append("free,%d" % i)
            if sh.kind(i) != "key":
                sh.kill(i)
        elif r < 0.64:
            i = rng.choice(ids)
            inner = sh.inner()
            # prefer a schema-compatible parent
            good = [t for t in inner if sh.alive.get(i) is not None and sch.by_sid[sh.alive[i]]["parent"] == sh.alive[t]]
            t = rng.choice(good) if good and rng.random() < 0.8 else (rng.choice(inner) if inner else rng.choice(ids))
            ops.append("ins_child,%d,%d" % (i, t))
            if t in good:
                sh.parent[i] = t
        elif r < 0.72:
            i, t = rng.choice(ids), rng.choice(ids)
            same = [x for x in ids if x != i and sh.alive.get(x) is not None and sh.alive.get(i) is not None and
                    sch.by_sid[sh.alive[x]]["parent"] == sch.by_sid[sh.alive[i]]["parent"]]
            if same and rng.random() < 0.8:
                t = rng.choice(same)
            ops.append("ins_sibling,%d,%d" % (i, t))
            if t in same:
                sh.parent[i] = sh.parent.get(t)
        elif r < 0.82:
            i, t = rng.choice(ids), rng.choice(ids)
            same = [x for x in ids if x != i and sh.alive.get(x) == sh.alive.get(i)]
            if same and rng.random() < 0.85:
                t = rng.choice(same)
            ops.append("%s,%d,%d" % (rng.choice(["ins_before", "ins_after"]), i, t))
            if t in same and sh.kind(i) in ("lu", "ld", "llu", "lld"):
                sh.parent[i] = sh.parent.get(t)
        elif r < 0.94:
            cand = [x for x in ids if sh.kind(x) in ("lls", "llu", "lld", "key", "lf")]
            pri = [x for x in cand if sh.kind(x) in ("lls", "key")]
            if pri and rng.random() < 0.7:
                cand = pri
            if cand:
                i = rng.choice(cand)
                ops.append("change,%d,%s" % (i, hexs(gen_value(rng, sch.by_sid[sh.alive[i]]["kt"]))))
            else:
                ops.append("change,%d,%s" % (rng.choice(ids), hexs(b"1")))
        else:
            i = rng.choice(ids)
            sid = sh.alive.get(i)
            if sid is None:
                continue
            sibs = [e for e in sch.ents if e["parent"] == sch.by_sid[sid]["parent"] and (e["parent"] is not None or e["mod"] == sch.by_sid[sid]["mod"])]
            e = rng.choice(sibs)
            ops.append("find,%d,%s,%s" % (i, sch.qname(e), hexs(gen_value(rng, e["kt"], bad=0.02))))
    return ops


def request(idx, sch, ops, variant):
    return "%d sib run %s %s %s %s" % (idx, variant, sch.desc_tok, sch.yang_tok, ";".join(ops) if ops else "-")


def split_reply(rep):
    """reply tokens -> (desc token, list of per-op token lists)"""
    if not rep or rep[0] != "ok":
        return None, None
    body = rep[1:]
    groups, cur = [], []
    for t in body:
        if t == "|":
            groups.append(cur)
            cur = []
        else:
            cur.append(t)
    groups.append(cur)
    return (groups[0][0] if groups[0] else ""), groups[1:]


VBITS = {1: "links", 2: "schema-order", 4: "sorted-order", 8: "search!=scan", 16: "children_ht content", 32: "node hash stale",
         64: "rb-tree/lyds metadata", 128: "id not reachable"}


def vbits(v):
    return "+".join(n for b, n in VBITS.items() if v & b) or "ok"


def run_impl_scripts(cx, harness, reqs):
    """Run request lines on the harness. A sanitizer abort kills the process in the middle of a reply: the partial reply
    (flushed op by op) says where, and the line after it is lost — such lines are run again, one process each."""
    ri = cx.run_impl(harness, reqs, component="sib", crash_is_failure=False)
    out = {}
    for l in reqs:
        i = l.split()[0]
        rep = ri.get(i)
        if not rep or rep[0] != "ok":
            rep = cx.run_impl(harness, [l], component="sib", crash_is_failure=False).get(i)
        out[i] = rep
    return out
