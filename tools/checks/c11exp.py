"""C11, schema-compiler core (lean/LyModel/Compile): one schema VALUE of the DSL (typedef chains, nested groupings, uses with
refine / uses-augment, choice/case with shorthand, own and foreign top-level augments — chained and sibling —, deviations,
if-feature, when, status) is
  * compiled by the Lean model (`lydrv`, component iff, op cdump) in a given load order,
  * rendered to YANG here and compiled by libyang (harness api_compile, op cdump: walk of the lysc tree) in the same load order,
    immediate and LY_CTX_EXPLICIT_COMPILE,
and both print the same canonical dump (path, kind, config, status, mandatory, presence, defaults, min/max, type base + effective
range/length, units, #when), compared token for token.  Then the model's own RFC expansion (`cexpand`: every uses replaced by
the refined / augmented copy of the grouping) is rendered and compiled by libyang as well and must give the same dump
(`cflat` = the model's compile of its expansion, also compared)."""
import itertools, re
from vlib.proto import hexs

HARNESS = "api_compile"
BUILTIN = ["int8", "int16", "int32", "uint8", "uint16", "uint32", "string", "boolean"]
INTS = {"int8": (-128, 127), "int16": (-32768, 32767), "int32": (-(1 << 31), (1 << 31) - 1), "uint8": (0, 255), "uint16": (0, 65535), "uint32": (0, (1 << 32) - 1)}


# ======================================================================================================================
# serialisation (the token stream lean/LyModel/Compile/Drv.lean parses) and its inverse
# ======================================================================================================================
def so(x): return "~" if x is None else "=" + x
def sb(x): return "~" if x is None else ("1" if x else "0")
def sn(x): return "~" if x is None else str(x)
def sl(l): return [str(len(l))] + list(l)


def ser_node(n):
    if n["k"] == "U":
        out = ["U", n["g"], str(n["whens"]), str(n["status"])] + sl(n["iffs"]) + [str(len(n["refines"]))]
        for r in n["refines"]:
            out += sl(r["path"]) + (["~"] if r["dflts"] is None else sl(r["dflts"])) + [sb(r["config"]), sb(r["mand"]), sb(r["presence"]), sn(r["min"]), sn(r["max"])] + sl(r["iffs"])
        out += [str(len(n["augs"]))]
        for a in n["augs"]:
            out += ser_aug(a)
        return out
    return ["N", n["kind"], n["name"], sb(n["config"]), str(n["status"]), sb(n["mand"]), sb(n["presence"]), str(n["whens"])] + sl(n["iffs"]) + sl(n["dflts"]) + \
        [str(n["min"]), str(n["max"]), sb(n["setmin"]), sb(n["setmax"]), n["ref"], so(n["restr"]), so(n["units"])] + ser_nodes(n["kids"])


def ser_nodes(l):
    out = [str(len(l))]
    for n in l:
        out += ser_node(n)
    return out


def ser_aug(a):
    out = [str(len(a["path"]))]
    for m, n in a["path"]:
        out += [m, n]
    return out + [str(a["whens"]), str(a["status"])] + sl(a["iffs"]) + ser_nodes(a["kids"])


def ser_schema(s):
    out = ["S"] + sl(s["features"]) + [str(len(s["typedefs"]))]
    for t in s["typedefs"]:
        out += [t["name"], t["ref"], so(t["restr"]), so(t["dflt"]), so(t["units"])]
    out += [str(len(s["groupings"]))]
    for g, kids in s["groupings"]:
        out += [g] + ser_nodes(kids)
    out += [str(len(s["mods"]))]
    for m in s["mods"]:
        out += [m["name"]] + ser_nodes(m["data"]) + [str(len(m["augs"]))]
        for a in m["augs"]:
            out += ser_aug(a)
        out += [str(len(m["devs"]))]
        for d in m["devs"]:
            out += [str(len(d["path"]))]
            for mm, n in d["path"]:
                out += [mm, n]
            out += [str(len(d["deviates"]))]
            for x in d["deviates"]:
                out += [x["kind"]] + sl(x["dflts"]) + [sb(x["config"]), sb(x["mand"]), sn(x["min"]), sn(x["max"]), so(x["units"])]
    return out


class Rd:
    def __init__(self, toks): self.t, self.i = toks, 0
    def tok(self):
        x = self.t[self.i]; self.i += 1; return x
    def nat(self): return int(self.tok())
    def ostr(self):
        x = self.tok(); return None if x == "~" else x[1:]
    def obool(self):
        x = self.tok(); return None if x == "~" else x == "1"
    def onat(self):
        x = self.tok(); return None if x == "~" else int(x)
    def lst(self): return [self.tok() for _ in range(self.nat())]
    def path(self): return [(self.tok(), self.tok()) for _ in range(self.nat())]
    def nodes(self): return [self.node() for _ in range(self.nat())]
    def aug(self):
        p = self.path()
        return {"path": p, "whens": self.nat(), "status": self.nat(), "iffs": self.lst(), "kids": self.nodes()}
    def node(self):
        t = self.tok()
        if t == "U":
            n = {"k": "U", "g": self.tok(), "whens": self.nat(), "status": self.nat(), "iffs": self.lst(), "refines": [], "augs": []}
            for _ in range(self.nat()):
                r = {"path": self.lst()}
                x = self.tok()
                r["dflts"] = None if x == "~" else [self.tok() for _ in range(int(x))]
                r.update(config=self.obool(), mand=self.obool(), presence=self.tok() == "1", min=self.onat(), max=self.onat(), iffs=self.lst())
                n["refines"].append(r)
            n["augs"] = [self.aug() for _ in range(self.nat())]
            return n
        n = {"k": "N", "kind": self.tok(), "name": self.tok(), "config": self.obool(), "status": self.nat(), "mand": self.obool(), "presence": self.tok() == "1",
             "whens": self.nat(), "iffs": self.lst(), "dflts": self.lst(), "min": self.nat(), "max": self.nat(), "setmin": self.tok() == "1", "setmax": self.tok() == "1",
             "ref": self.tok(), "restr": self.ostr(), "units": self.ostr()}
        n["kids"] = self.nodes()
        return n
    def schema(self):
        assert self.tok() == "S"
        s = {"features": self.lst(), "typedefs": [], "groupings": [], "mods": []}
        for _ in range(self.nat()):
            s["typedefs"].append({"name": self.tok(), "ref": self.tok(), "restr": self.ostr(), "dflt": self.ostr(), "units": self.ostr()})
        for _ in range(self.nat()):
            g = self.tok(); s["groupings"].append((g, self.nodes()))
        for _ in range(self.nat()):
            m = {"name": self.tok(), "data": self.nodes(), "augs": [], "devs": []}
            m["augs"] = [self.aug() for _ in range(self.nat())]
            for _ in range(self.nat()):
                d = {"path": self.path(), "deviates": []}
                for _ in range(self.nat()):
                    d["deviates"].append({"kind": self.tok(), "dflts": self.lst(), "config": self.obool(), "mand": self.obool(), "min": self.onat(), "max": self.onat(), "units": self.ostr()})
                m["devs"].append(d)
            s["mods"].append(m)
        return s


# ======================================================================================================================
# rendering to YANG
# ======================================================================================================================
STATUS = {1: "current", 2: "deprecated", 3: "obsolete"}


def render(s):
    """-> [(module name, yang text)]; typedefs, groupings and features live in the first module"""
    m0 = s["mods"][0]["name"]
    out = []
    for mi, m in enumerate(s["mods"]):
        me = m["name"]
        used = set()
        def pre(name, builtin_ok=True):
            if builtin_ok and name in BUILTIN: return name
            if me == m0: return name
            used.add(m0); return m0 + ":" + name
        def iffl(iffs, ind):
            return "".join("%sif-feature %s;\n" % (ind, pre(f, False)) for f in iffs)
        def typ(ref, restr, ind):
            if restr is None: return "%stype %s;\n" % (ind, pre(ref))
            base = ref
            tds = {t["name"]: t for t in s["typedefs"]}
            while base in tds: base = tds[base]["ref"]
            return '%stype %s { %s "%s"; }\n' % (ind, pre(ref), "length" if base == "string" else "range", restr)
        def apath(p):
            for mm, _ in p:
                if mm != me: used.add(mm)
            return "/" + "/".join("%s:%s" % q for q in p)
        def node(n, ind, top=False):
            if n["k"] == "U":
                t = "%suses %s {\n" % (ind, pre(n["g"], False))
                i2 = ind + "  "
                if n["whens"]: t += '%swhen "true()";\n' % i2
                t += iffl(n["iffs"], i2)
                if n["status"]: t += "%sstatus %s;\n" % (i2, STATUS[n["status"]])
                for r in n["refines"]:
                    t += '%srefine "%s" {\n' % (i2, "/".join(r["path"]))
                    i3 = i2 + "  "
                    t += iffl(r["iffs"], i3)
                    if r["presence"]: t += '%spresence "rp";\n' % i3
                    for d in (r["dflts"] or []): t += '%sdefault "%s";\n' % (i3, d)
                    if r["config"] is not None: t += "%sconfig %s;\n" % (i3, "true" if r["config"] else "false")
                    if r["mand"] is not None: t += "%smandatory %s;\n" % (i3, "true" if r["mand"] else "false")
                    if r["min"] is not None: t += "%smin-elements %d;\n" % (i3, r["min"])
                    if r["max"] is not None: t += "%smax-elements %s;\n" % (i3, r["max"] if r["max"] else "unbounded")
                    t += "%s}\n" % i2
                for a in n["augs"]:
                    t += '%saugment "%s" {\n' % (i2, "/".join(x for _, x in a["path"])) + aug_body(a, i2 + "  ") + "%s}\n" % i2
                return t + "%s}\n" % ind
            k = n["kind"]
            if k in ("input", "output"):
                if not n["kids"]: return ""
                return "%s%s {\n" % (ind, k) + "".join(node(c, ind + "  ") for c in n["kids"]) + "%s}\n" % ind
            t = "%s%s %s {\n" % (ind, "rpc" if k == "action" and top else k, n["name"])
            i2 = ind + "  "
            if n["whens"] and k not in ("action", "notification"): t += '%swhen "true()";\n' % i2      # (no `when` substatement there)
            t += iffl(n["iffs"], i2)
            if k == "list" and n["kids"] and n["kids"][0].get("name") == "k": t += '%skey "k";\n' % i2
            if k in ("leaf", "leaf-list"): t += typ(n["ref"], n["restr"], i2)
            if n["units"] is not None: t += '%sunits "%s";\n' % (i2, n["units"])
            if n["presence"]: t += '%spresence "p";\n' % i2
            for d in n["dflts"]: t += '%sdefault "%s";\n' % (i2, d)
            if n["config"] is not None: t += "%sconfig %s;\n" % (i2, "true" if n["config"] else "false")
            if n["mand"] is not None: t += "%smandatory %s;\n" % (i2, "true" if n["mand"] else "false")
            if n["setmin"] or n["min"]: t += "%smin-elements %d;\n" % (i2, n["min"])       # a refine sets the value, not the LYS_SET_* flag
            if n["setmax"] or n["max"]: t += "%smax-elements %s;\n" % (i2, n["max"] if n["max"] else "unbounded")
            if n["status"]: t += "%sstatus %s;\n" % (i2, STATUS[n["status"]])
            for c in n["kids"]: t += node(c, i2)
            return t + "%s}\n" % ind
        def aug_body(a, ind):
            t = ""
            if a["whens"]: t += '%swhen "true()";\n' % ind
            t += iffl(a["iffs"], ind)
            if a["status"]: t += "%sstatus %s;\n" % (ind, STATUS[a["status"]])
            for c in a["kids"]: t += node(c, ind)
            return t
        body = ""
        if mi == 0:
            for f in ("f1", "f2", "f3"): body += "  feature %s;\n" % f
            for t in s["typedefs"]:
                body += "  typedef %s {\n" % t["name"] + typ(t["ref"], t["restr"], "    ")
                if t["units"] is not None: body += '    units "%s";\n' % t["units"]
                if t["dflt"] is not None: body += '    default "%s";\n' % t["dflt"]
                body += "  }\n"
            for g, kids in s["groupings"]:
                body += "  grouping %s {\n" % g + "".join(node(c, "    ") for c in kids) + "  }\n"
        for c in m["data"]: body += node(c, "  ", True)
        for a in m["augs"]:
            body += '  augment "%s" {\n' % apath(a["path"]) + aug_body(a, "    ") + "  }\n"
        for d in m["devs"]:
            body += '  deviation "%s" {\n' % apath(d["path"])
            for x in d["deviates"]:
                if x["kind"] == "not-supported":
                    body += "    deviate not-supported;\n"; continue
                body += "    deviate %s {\n" % x["kind"]
                if x["units"] is not None: body += '      units "%s";\n' % x["units"]
                for v in x["dflts"]: body += '      default "%s";\n' % v
                if x["config"] is not None: body += "      config %s;\n" % ("true" if x["config"] else "false")
                if x["mand"] is not None: body += "      mandatory %s;\n" % ("true" if x["mand"] else "false")
                if x["min"] is not None: body += "      min-elements %d;\n" % x["min"]
                if x["max"] is not None: body += "      max-elements %s;\n" % (x["max"] if x["max"] else "unbounded")
                body += "    }\n"
            body += "  }\n"
        head = '  yang-version 1.1;\n  namespace "urn:%s";\n  prefix %s;\n' % (me, me) + "".join("  import %s { prefix %s; }\n" % (u, u) for u in sorted(used))
        out.append((me, "module %s {\n%s%s}\n" % (me, head, body)))
    return out


# ======================================================================================================================
# generator
# ======================================================================================================================
def N(kind, name, **kw):
    n = {"k": "N", "kind": kind, "name": name, "config": None, "status": 0, "mand": None, "presence": False, "whens": 0, "iffs": [], "dflts": [], "min": 0, "max": 0,
         "setmin": False, "setmax": False, "ref": "string", "restr": None, "units": None, "kids": []}
    n.update(kw)
    return n


def rng_ok(rng, p):
    return rng.random() < p


def parts_str(parts):
    return "|".join(str(a) if a == b else "%d..%d" % (a, b) for a, b in parts)


def src_flags():
    """which candidate repairs the source tree under test contains (tools/extractors/compile.py reads them off the C text)"""
    import importlib.util, os
    here = os.path.dirname(os.path.dirname(os.path.abspath(__file__)))
    spec = importlib.util.spec_from_file_location("extractors_compile_flags", os.path.join(here, "extractors", "compile.py"))
    m = importlib.util.module_from_spec(spec)
    spec.loader.exec_module(m)
    return m.flags()


class Gen:
    FIX = {"f390": False, "f391": False, "f392": False}

    def __init__(self, rng, idx):
        self.rng, self.idx, self.n = rng, idx, 0
        self.tds, self.tdinfo, self.groups, self.ginfo = [], {}, [], {}
        self.notes = set()
        self.gstack = {}
        self.ops_ok, self.ops_allowed, self.gtop_ops, self.cur_top_ops = False, True, set(), False

    def name(self, p="n"):
        self.n += 1
        return "%s%d" % (p, self.n)

    def narrow(self, parts):
        rng = self.rng
        out = []
        for a, b in parts:
            r = rng.random()
            if r < 0.2 and len(parts) > 1: continue
            if b - a >= 4 and r < 0.6:
                m = rng.randrange(a + 1, b - 1)
                out.append((a + rng.randrange(0, 2), m - 1))
                if rng.random() < 0.6: out.append((m + 1, b - rng.randrange(0, 2)))
            elif b > a and r < 0.8: out.append((a + 1, b))
            else: out.append((a, b))
        out = [(a, b) for a, b in out if a <= b]
        return out or [parts[0]]

    def typedef_chain(self):
        rng = self.rng
        kind = rng.choice(["int", "int", "string", "plain"])
        if kind == "plain":
            base = rng.choice(["boolean", "uint8", "string", "int32"])
            t = {"name": self.name("t"), "ref": base, "restr": None, "dflt": "true" if base == "boolean" and rng.random() < 0.5 else None, "units": rng.choice([None, "u"])}
            self.tds.append(t); self.tdinfo[t["name"]] = (base, None, t["dflt"])
            return
        if kind == "int":
            base = rng.choice(list(INTS)); lo, hi = INTS[base]
            parts = [(max(lo, -50), min(hi, 100))] if rng.random() < 0.5 else [(max(lo, 0), 40), (60, min(hi, 120))]
        else:
            base, parts = "string", [(0, 12)]
        parent, dfl = base, None
        for lvl in range(rng.randrange(1, 4)):
            restr = True
            if lvl:
                if rng.random() < 0.25: restr = False
                else: parts = self.narrow(parts)
            t = {"name": self.name("t"), "ref": parent, "restr": parts_str(parts) if restr else None, "dflt": None, "units": None}
            ok = dfl is not None and (any(a <= int(dfl) <= b for a, b in parts) if base != "string" else any(a <= len(dfl) <= b for a, b in parts))
            if rng.random() < 0.4 or (dfl is not None and not ok):
                a, b = rng.choice(parts)
                t["dflt"] = str(rng.choice([a, b])) if base != "string" else "a" * max(a, 1 if b >= 1 else 0)
                if t["dflt"] == "": t["dflt"] = None
                else: dfl = t["dflt"]
            if rng.random() < 0.35: t["units"] = rng.choice(["s", "ms", "kB"])
            self.tds.append(t); self.tdinfo[t["name"]] = (base, list(parts), dfl)
            parent = t["name"]

    def pick_type(self):
        """-> (ref, restr, base, parts, typedef default)"""
        rng = self.rng
        if self.tds and rng.random() < 0.7:
            t = rng.choice(self.tds)
            base, parts, dfl = self.tdinfo[t["name"]]
            restr = None
            if parts and rng.random() < 0.35:
                np_ = self.narrow(parts)
                ok = dfl is None or (any(a <= int(dfl) <= b for a, b in np_) if base != "string" else any(a <= len(dfl) <= b for a, b in np_))
                if ok: parts, restr = np_, parts_str(np_)
            return t["name"], restr, base, parts, dfl
        b = rng.choice(["string", "int32", "uint8", "boolean", "int8"])
        return b, None, b, None, None

    def value(self, base, parts):
        rng = self.rng
        if base == "boolean": return rng.choice(["true", "false"])
        if base == "string":
            n = rng.choice(parts)[0] if parts else rng.randrange(0, 4)
            return "a" * n if 0 < n <= 12 else ("b" if not parts or any(a <= 1 <= b for a, b in parts) else None)
        a, b = rng.choice(parts) if parts else (max(INTS[base][0], -5), min(INTS[base][1], 90))
        return str(rng.choice([a, b]))

    def iffs(self, p=0.12):
        return [self.rng.choice(["f1", "f2", "f3"])] if self.rng.random() < p else []

    def leaf(self, allow_mand=True):
        rng = self.rng
        ref, restr, base, parts, tdf = self.pick_type()
        n = N("leaf", self.name(), ref=ref, restr=restr, iffs=self.iffs())
        n["_t"] = (base, parts, tdf)
        r = rng.random()
        if r < 0.3:
            v = self.value(base, parts)
            if v is not None: n["dflts"] = [v]
        elif r < 0.42 and allow_mand: n["mand"] = True
        elif r < 0.47: n["mand"] = False
        if rng.random() < 0.1: n["units"] = "x"
        if rng.random() < 0.06: n["whens"] = 1
        if rng.random() < 0.05: n["status"] = rng.choice([1, 2])
        return n

    def leaflist(self):
        rng = self.rng
        ref, restr, base, parts, tdf = self.pick_type()
        n = N("leaf-list", self.name(), ref=ref, restr=restr, iffs=self.iffs())
        n["_t"] = (base, parts, tdf)
        if rng.random() < 0.4: n.update(max=rng.randrange(2, 6), setmax=True)
        if rng.random() < 0.2: n.update(min=1, setmin=True)
        elif rng.random() < 0.25 and base != "boolean":
            vs = {self.value(base, parts) for _ in range(2)} - {None}
            n["dflts"] = sorted(vs)
        return n

    def container(self, depth, uses_ok):
        save, self.ops_ok = self.ops_ok, True
        kids = self.children(depth + 1, uses_ok)
        if self.ops_allowed and rng_ok(self.rng, 0.12): kids += self.ops()
        self.ops_ok = save
        n = N("container", self.name(), iffs=self.iffs(), kids=kids)
        if self.rng.random() < 0.3: n["presence"] = True
        if self.rng.random() < 0.12: n["config"] = False
        if self.rng.random() < 0.05: n["whens"] = 1
        return n

    def list_(self, depth, uses_ok):
        save, self.ops_ok = self.ops_ok, True
        kids = self.children(depth + 1, uses_ok)
        self.ops_ok = save
        n = N("list", self.name(), iffs=self.iffs(), kids=[N("leaf", "k")] + kids)
        if self.rng.random() < 0.3: n.update(max=self.rng.randrange(2, 9), setmax=True)
        if self.rng.random() < 0.15: n.update(min=1, setmin=True)
        return n

    def choice(self, depth, uses_ok):
        rng = self.rng
        save, self.ops_ok = self.ops_ok, False
        try:
            return self.choice_(depth, uses_ok)
        finally:
            self.ops_ok = save

    def choice_(self, depth, uses_ok):
        rng = self.rng
        n = N("choice", self.name(), iffs=self.iffs(0.05))
        for _ in range(rng.randrange(1, 4)):
            if rng.random() < 0.5:
                n["kids"].append(N("case", self.name(), kids=self.children(depth + 2, uses_ok, nochoice=True)))
            else:
                k = self.leaf(allow_mand=False) if rng.random() < 0.7 else self.container(depth + 1, uses_ok)
                k["status"] = 0      # shorthand case: its status is copied from the child AFTER the augments of the case were applied (quirk, see DESIGN-notes)
                n["kids"].append(k)
        if rng.random() < 0.2: n["mand"] = True
        return n

    def ops(self):
        """an action and/or a notification (RFC 7950 sec. 7.15 / 7.16): plain leaves and a container inside"""
        rng = self.rng
        out = []
        if rng.random() < 0.7:
            inp = [self.leaf(allow_mand=rng.random() < 0.5) for _ in range(rng.randrange(0, 3))]
            outp = [self.leaf() for _ in range(rng.randrange(0, 2))]
            a = N("action", self.name("a"), iffs=self.iffs(), kids=[N("input", "input", kids=inp), N("output", "output", kids=outp)])
            if rng.random() < 0.1: a["whens"] = 0
            out.append(a)
        if rng.random() < 0.6 or not out:
            kids = [self.leaf() for _ in range(rng.randrange(1, 3))]
            if rng.random() < 0.3: kids.append(N("container", self.name(), kids=[self.leaf(), self.leaflist()]))
            out.append(N("notification", self.name("e"), iffs=self.iffs(), kids=kids))
        return out

    def children(self, depth, uses_ok=True, nochoice=False):
        rng = self.rng
        out = []
        for _ in range(rng.randrange(1, 4 if depth else 5)):
            r = rng.random()
            if r < 0.38 or depth >= 3: out.append(self.leaf())
            elif r < 0.5: out.append(self.leaflist())
            elif r < 0.66: out.append(self.container(depth, uses_ok))
            elif r < 0.74: out.append(self.list_(depth, uses_ok))
            elif r < 0.82 and not nochoice: out.append(self.choice(depth, uses_ok))
            elif uses_ok and self.groups: out.append(self.uses())
            else: out.append(self.leaf())
        return out

    def flat(self, kids, prefix=(), gs=()):
        """(relative path, node) of everything below `kids` after expansion of uses (names/kinds only; refines not applied);
        self.prov[id(node copy)] is not kept: the groupings being instantiated are recorded in self.gstack[path]"""
        res = []
        for c in kids:
            if c["k"] == "U":
                res += [(prefix + p, n) for p, n in self.flat(dict(self.groups)[c["g"]], (), gs + (c["g"],))]
                for p, n in res: self.gstack.setdefault(p, set()).update(gs + (c["g"],))
                for a in c["augs"]:
                    res += self.flat(a["kids"], prefix + tuple(x for _, x in a["path"]), gs + (c["g"],))
            else:
                p = prefix + (c["name"],)
                res.append((p, c))
                self.gstack.setdefault(p, set()).update(gs)
                if c["kind"] == "choice":
                    for k in c["kids"]:
                        if k["k"] == "N" and k["kind"] != "case":
                            res.append((p + (k["name"],), N("case", k["name"])))
                            res += self.flat([k], p + (k["name"],), gs)
                        else:
                            res += self.flat([k], p, gs)
                else:
                    res += self.flat(c["kids"], p, gs)
        return res

    def uses(self):
        rng = self.rng
        cands = [x for x in self.groups if self.ops_ok or x[0] not in self.gtop_ops]
        if not cands:
            return self.leaf()
        g, body = rng.choice(cands)
        if g in self.gtop_ops: self.cur_top_ops = True
        u = {"k": "U", "g": g, "whens": 1 if rng.random() < 0.08 else 0, "status": 0, "iffs": self.iffs(0.1), "refines": [], "augs": []}
        targets = self.flat(body)
        rng.shuffle(targets)
        for p, node in targets[:rng.randrange(0, 3)]:
            if node["name"] == "k" or node["kind"] in ("case", "input", "output"): continue
            r = {"path": list(p), "dflts": None, "config": None, "mand": None, "presence": False, "min": None, "max": None, "iffs": []}
            k = node["kind"]
            x = rng.random()
            if k == "leaf":
                base, parts, tdf = node.get("_t", ("string", None, None))
                if x < 0.4 and node["mand"] is not True:
                    v = self.value(base, parts)
                    if v is not None: r["dflts"] = [v]
                elif x < 0.7 and not node["dflts"]: r["mand"] = rng.choice([True, False])
                elif node["mand"] is True: r["mand"] = False
            elif k == "container":
                if x < 0.5: r["presence"] = True
                elif node["config"] is None and x < 0.7: r["config"] = False
            elif k in ("leaf-list", "list"):
                r["max"] = rng.randrange(3, 9)
                if k == "leaf-list" and not node["dflts"] and rng.random() < 0.3: r["min"] = 1
            elif k == "choice" and x < 0.5:
                r["mand"] = rng.choice([True, False])
            if rng.random() < 0.2: r["iffs"] = self.iffs(1.0)
            if any(v for kk, v in r.items() if kk != "path" and v not in (None, False, [])):
                u["refines"].append(r)
        conts = [(p, n) for p, n in targets if n["kind"] in ("container", "list", "case")]
        if conts and rng.random() < 0.45:
            p, _ = rng.choice(conts)
            u["augs"].append({"path": [("-", x) for x in p], "whens": 1 if rng.random() < 0.2 else 0, "status": 0, "iffs": self.iffs(0.15),
                              "kids": [self.leaf(allow_mand=False) for _ in range(rng.randrange(1, 3))]})
        return u

    def grouping(self):
        g = self.name("g")
        self.ops_ok, self.cur_top_ops = True, False
        body = self.children(1, uses_ok=bool(self.groups))
        # a uses of a grouping with operations directly inside this grouping, carrying when / if-feature (the child set of the
        # inner uses goes to the outer statement: data nodes, actions and notifications)
        if self.gtop_ops and self.rng.random() < 0.35:
            u = self.uses()
            if u["k"] == "U":
                if self.rng.random() < 0.6: u["whens"] = 1
                if self.rng.random() < 0.6: u["iffs"] = self.iffs(1.0)
                body.append(u)
        if self.ops_allowed and self.rng.random() < 0.35:
            body += self.ops(); self.cur_top_ops = True
        if self.cur_top_ops or any(c["k"] == "U" and c["g"] in self.gtop_ops for c in body): self.gtop_ops.add(g)
        self.ops_ok = False
        self.groups.append((g, body))

    def schema(self):
        rng = self.rng
        for _ in range(rng.randrange(1, 4)): self.typedef_chain()
        for _ in range(rng.randrange(1, 5)): self.grouping()
        nmod = rng.randrange(1, 5)
        names = ["cx%d%s" % (self.idx, chr(97 + i)) for i in range(nmod)]
        mods = [{"name": m, "data": [], "augs": [], "devs": []} for m in names]
        top = [N("container", self.name(), kids=self.children(1) + ([self.uses()] if rng.random() < 0.7 else [])) for _ in range(rng.randrange(1, 3))]
        if rng.random() < 0.4:
            u = self.uses()
            # a choice at the top level of a module + a foreign augment of its cases: finding F391 (kept to the witness)
            if self.FIX["f391"] or not any(len(p) == 1 and n["kind"] == "choice" for p, n in self.flat([u])): top.append(u)
        if self.FIX["f391"] and rng.random() < 0.3: top.append(self.choice(0, True))     # a choice at the top level (F391 repaired)
        if rng.random() < 0.3: top += self.ops()                                          # rpc / notification of the module
        mods[0]["data"] = top
        # augment targets: absolute paths of containers / lists / choices / cases of the base data (after expansion)
        self.gstack = {}
        targets = [([(names[0], x) for x in p], n["kind"], 0) for p, n in self.flat(top)
                   if n["kind"] in ("container", "list", "choice", "case", "input", "output", "notification") and not n.get("iffs")
                   and not (n["kind"] in ("input", "output") and not n["kids"])]
        for step in range(rng.randrange(0, 7) if nmod > 1 or rng.random() < 0.5 else 0):
            if not targets: break
            tp, tk, need = rng.choice(targets)
            owner = rng.randrange(need, nmod)
            kids = []
            a = {"path": list(tp), "whens": 0, "status": 0, "iffs": self.iffs(0.08), "kids": kids}
            for _ in range(rng.randrange(1, 3)):
                if tk == "choice":
                    if rng.random() < 0.5: kids.append(N("case", self.name(), kids=[self.leaf(allow_mand=False)]))
                    else: kids.append(self.leaf(allow_mand=False))
                elif rng.random() < 0.5:
                    c = N("container", self.name(), kids=[self.leaf(allow_mand=False) for _ in range(rng.randrange(1, 3))])
                    kids.append(c)
                    targets.append((tp + [(names[owner], c["name"])], "container", max(owner, need)))
                elif rng.random() < 0.25 and self.groups and tk != "choice":
                    inops = any(x in ("input", "output") or x.startswith("e") or x.startswith("a") for _, x in tp)
                    anyops = {x[0] for x in self.groups if any(n_["kind"] in ("action", "notification") for _, n_ in self.flat(x[1]))}
                    pool = [x for x in self.groups if (x[0] not in self.gtop_ops or tk in ("container", "list")) and not (inops and x[0] in anyops)]
                    if not pool:
                        kids.append(self.leaf(allow_mand=False)); continue
                    g, body = rng.choice(pool)
                    if g in self.gtop_ops and rng.random() < 0.7:
                        a["whens"] = 1 if rng.random() < 0.6 else a["whens"]
                        a["iffs"] = a["iffs"] or self.iffs(0.6)
                    inst = set()
                    for k_ in range(1, len(tp) + 1): inst |= self.gstack.get(tuple(x for _, x in tp[:k_]), set())
                    # a uses of a grouping inside an augment of a node that came from the same grouping: finding F390 (kept to the witness)
                    # (with F390 repaired the shape compiles, but wrongly when the target sits in a shorthand case: finding F394)
                    if g not in inst and not any(n.get("mand") or n.get("setmin") for _, n in self.flat(body)):
                        kids.append({"k": "U", "g": g, "whens": 0, "status": 0, "iffs": [], "refines": [], "augs": []})
                    else: kids.append(self.leaf(allow_mand=False))
                else:
                    l = self.leaf(allow_mand=False)
                    if rng.random() < 0.15 and owner != 0:
                        l["mand"] = True; l["dflts"] = []; a["whens"] = 1
                    kids.append(l)
            mods[owner]["augs"].append(a)
        for m in mods: rng.shuffle(m["augs"])
        # deviations from the last module (never the base itself)
        if nmod > 1 and rng.random() < 0.5:
            cands = [(p, n) for p, n in self.flat(top) if n["name"] != "k"]
            rng.shuffle(cands)
            for p, n in cands[:rng.randrange(1, 3)]:
                path = [(names[0], x) for x in p]
                x = rng.random()
                dv = lambda kind, **kw: dict({"kind": kind, "dflts": [], "config": None, "mand": None, "min": None, "max": None, "units": None}, **kw)
                ds = None
                if x < 0.3: ds = [dv("not-supported")]
                elif n["kind"] == "leaf":
                    base, parts, tdf = n.get("_t", ("string", None, None))
                    if n["dflts"] and x < 0.6: ds = [dv("delete", dflts=list(n["dflts"]))]
                    elif n["dflts"]:
                        v = self.value(base, parts)
                        if v is not None: ds = [dv("replace", dflts=[v])]
                    elif n["mand"] is None and x < 0.7: ds = [dv("add", mand=rng.choice([True, False]) if tdf is None else False)]
                    elif n["mand"] is not True:
                        v = self.value(base, parts)
                        if v is not None: ds = [dv("add", dflts=[v])]
                    if ds and n["units"] is None and rng.random() < 0.3: ds.append(dv("add", units="dv"))
                elif n["kind"] in ("leaf-list", "list"):
                    ds = [dv("replace", max=rng.randrange(3, 9))] if n["setmax"] else [dv("add", max=rng.randrange(3, 9))]
                elif n["kind"] == "container" and n["config"] is None: ds = [dv("add", config=False)]
                if ds: mods[-1]["devs"].append({"path": path, "deviates": ds})
        feats = rng.choice([[], ["f1"], ["f2", "f3"], ["f1", "f2", "f3"]])
        return {"features": feats, "typedefs": self.tds, "groupings": self.groups, "mods": mods}


def strip(x):
    """drop generator-private keys"""
    if isinstance(x, dict): return {k: strip(v) for k, v in x.items() if not k.startswith("_")}
    if isinstance(x, (list, tuple)): return type(x)(strip(v) for v in x)
    return x


def mutate_invalid(rng, s):
    """one targeted damage: the set should now be rejected by both sides (or accepted by both)"""
    import copy
    s = copy.deepcopy(s)
    nodes = []
    def walk(kids, under):
        for c in kids:
            if c["k"] == "U":
                nodes.append(("U", c, kids))
                for a in c["augs"]: walk(a["kids"], under)
            else:
                nodes.append(("N", c, kids)); walk(c["kids"], under)
    for m in s["mods"]:
        walk(m["data"], m)
        for a in m["augs"]: walk(a["kids"], m)
    for g, b in s["groupings"]: walk(b, None)
    what = rng.choice(["refine-missing", "refine-kind", "dup-name", "cfg", "minmax", "dflt-range", "mand-dflt", "aug-missing", "aug-mand", "dev-add-exists", "status", "dev-missing", "uses-missing"])
    us = [c for t, c, _ in nodes if t == "U"]
    ns = [(c, sib) for t, c, sib in nodes if t == "N"]
    rf = lambda path, **kw: dict({"path": path, "dflts": None, "config": None, "mand": None, "presence": False, "min": None, "max": None, "iffs": []}, **kw)
    if what == "refine-missing" and us: rng.choice(us)["refines"].append(rf(["zz9"], config=False))
    elif what == "refine-kind" and us:
        u = rng.choice(us); body = dict(s["groupings"])[u["g"]]
        firsts = [c for c in body if c["k"] == "N"]
        if firsts: u["refines"].append(rf([firsts[0]["name"]], presence=True) if firsts[0]["kind"] != "container" else rf([firsts[0]["name"]], max=3))
    elif what == "dup-name" and ns:
        c, sib = rng.choice(ns)
        if c["name"] != "k": sib.append(N("leaf", c["name"]))
    elif what == "cfg" and ns:
        conts = [c for c, _ in ns if c["kind"] == "container" and c["kids"]]
        if conts:
            c = rng.choice(conts); c["config"] = False
            k = [x for x in c["kids"] if x["k"] == "N"]
            if k: k[0]["config"] = True
    elif what == "minmax":
        ll = [c for c, _ in ns if c["kind"] in ("leaf-list", "list")]
        if ll: ll[0].update(min=5, setmin=True, max=2, setmax=True, dflts=[])
    elif what == "dflt-range":
        lf = [c for c, _ in ns if c["kind"] == "leaf" and c["ref"] in INTS and c["mand"] is not True]
        if lf: lf[0]["dflts"] = ["99999999999"]
    elif what == "mand-dflt":
        lf = [c for c, _ in ns if c["kind"] == "leaf" and c["dflts"]]
        if lf: lf[0]["mand"] = True
    elif what == "aug-missing":
        s["mods"][-1]["augs"].append({"path": [(s["mods"][0]["name"], "zz8")], "whens": 0, "status": 0, "iffs": [], "kids": [N("leaf", "zz7")]})
    elif what == "aug-mand" and len(s["mods"]) > 1:
        base = s["mods"][0]
        tops = [c for c in base["data"] if c["k"] == "N" and c["kind"] == "container" and c["config"] is None and not c["iffs"]]
        if tops: s["mods"][-1]["augs"].append({"path": [(base["name"], tops[0]["name"])], "whens": 0, "status": 0, "iffs": [], "kids": [N("leaf", "zz6", mand=True)]})
    elif what == "dev-add-exists" and len(s["mods"]) > 1:
        base = s["mods"][0]
        tops = [c for c in base["data"] if c["k"] == "N" and c["kind"] == "container"]
        if tops:
            tops[0]["config"] = True
            s["mods"][-1]["devs"].append({"path": [(base["name"], tops[0]["name"])], "deviates": [{"kind": "add", "dflts": [], "config": False, "mand": None, "min": None, "max": None, "units": None}]})
    elif what == "dev-missing" and len(s["mods"]) > 1:
        s["mods"][-1]["devs"].append({"path": [(s["mods"][0]["name"], "zz5")], "deviates": [{"kind": "not-supported", "dflts": [], "config": None, "mand": None, "min": None, "max": None, "units": None}]})
    elif what == "status" and ns:
        conts = [c for c, _ in ns if c["kind"] == "container" and c["kids"]]
        if conts:
            c = rng.choice(conts); c["status"] = 3
            k = [x for x in c["kids"] if x["k"] == "N"]
            if k: k[0]["status"] = 1
    elif what == "uses-missing" and us: rng.choice(us)["g"] = "gzz"
    return s, what


# ======================================================================================================================
# witnesses (hand-made values: the two mutations of the brief are aimed at these shapes, and F81)
# ======================================================================================================================
def witnesses():
    rf = lambda path, **kw: dict({"path": path, "dflts": None, "config": None, "mand": None, "presence": False, "min": None, "max": None, "iffs": []}, **kw)
    U = lambda g, refines=(), augs=(), **kw: dict({"k": "U", "g": g, "whens": 0, "status": 0, "iffs": [], "refines": list(refines), "augs": list(augs)}, **kw)
    out = []
    # same leaf-list name in two places of one grouping copy (choice cases of two different containers), refine of max-elements on one of them
    g = [N("container", "ca", kids=[N("choice", "ch", kids=[N("case", "c1", kids=[N("leaf-list", "ll", ref="int8")]), N("case", "c2", kids=[N("leaf", "x")])])]),
         N("container", "cb", kids=[N("choice", "ch", kids=[N("case", "c1", kids=[N("leaf-list", "ll", ref="int8")])])])]
    out.append(("refine-same-name", {"features": [], "typedefs": [], "groupings": [("g1", g)],
                "mods": [{"name": "cwa", "data": [N("container", "top", kids=[U("g1", [rf(["cb", "ch", "c1", "ll"], max=4)])])], "augs": [], "devs": []}]}))
    # config inherited from the uses site: grouping used below a config-false container and below a config-true one
    g2 = [N("container", "gc", kids=[N("leaf", "gl", ref="int8"), N("leaf-list", "gll")])]
    out.append(("config-uses-site", {"features": [], "typedefs": [], "groupings": [("g1", g2)],
                "mods": [{"name": "cwb", "data": [N("container", "st", config=False, kids=[U("g1")]), N("container", "cf", kids=[U("g1")])], "augs": [], "devs": []}]}))
    # nested uses: the outer refine wins (F80, repaired), refines at three levels
    g3 = [N("leaf", "l3", ref="int8"), N("leaf-list", "ll", ref="string")]
    g4 = [N("container", "c4", kids=[U("g1", [rf(["l3"], mand=True), rf(["ll"], max=3)])])]
    g5 = [U("g2", [rf(["c4", "l3"], mand=False, dflts=None), rf(["c4", "ll"], max=5)])]
    out.append(("nested-refine", {"features": [], "typedefs": [], "groupings": [("g1", g3), ("g2", g4), ("g3", g5)],
                "mods": [{"name": "cwc", "data": [N("container", "top", kids=[U("g3", [rf(["c4", "ll"], max=7), rf(["c4", "l3"], dflts=["5"])])])], "augs": [], "devs": []}]}))
    # F81: three augments of one module on the same target + a foreign one
    aug = lambda path, name: {"path": path, "whens": 0, "status": 0, "iffs": [], "kids": [N("leaf", name)]}
    out.append(("f81", {"features": [], "typedefs": [], "groupings": [],
                "mods": [{"name": "cwd", "data": [N("container", "c", kids=[N("leaf", "x")])],
                          "augs": [aug([("cwd", "c")], "a1"), aug([("cwd", "c")], "a2"), aug([("cwd", "c")], "a3")], "devs": []},
                         {"name": "cwe", "data": [], "augs": [aug([("cwd", "c")], "y")], "devs": []}]}))
    # chained augments listed before their parents, over three modules
    caug = lambda path, name: {"path": path, "whens": 0, "status": 0, "iffs": [], "kids": [N("container", name, kids=[N("leaf", name + "l")])]}
    out.append(("chained", {"features": [], "typedefs": [], "groupings": [],
                "mods": [{"name": "cwf", "data": [N("container", "n", kids=[N("leaf", "x")])], "augs": [caug([("cwf", "n"), ("cwf", "c1")], "c1a"), caug([("cwf", "n")], "c1")], "devs": []},
                         {"name": "cwg", "data": [], "augs": [aug([("cwf", "n"), ("cwf", "c1"), ("cwg", "c2")], "z"), caug([("cwf", "n"), ("cwf", "c1")], "c2")], "devs": []},
                         {"name": "cwh", "data": [], "augs": [aug([("cwf", "n"), ("cwf", "c1"), ("cwg", "c2")], "w"), aug([("cwf", "n")], "v"), aug([("cwf", "n"), ("cwf", "c1"), ("cwf", "c1a")], "u")], "devs": []}]}))
    # F390: `uses g` inside a top-level augment of a node that itself came from `uses g`
    out.append(("f390", {"features": [], "typedefs": [], "groupings": [("g5", [N("container", "c", kids=[N("leaf", "x")])])],
                "mods": [{"name": "cya", "data": [N("container", "n10", kids=[U("g5")])], "augs": [], "devs": []},
                         {"name": "cyb", "data": [], "augs": [{"path": [("cya", "n10"), ("cya", "c")], "whens": 0, "status": 0, "iffs": [], "kids": [U("g5")]}], "devs": []}]}))
    # F391: foreign augment of a case of a TOP-LEVEL choice
    out.append(("f391", {"features": [], "typedefs": [], "groupings": [],
                "mods": [{"name": "cza", "data": [N("choice", "ch", kids=[N("case", "c1", kids=[N("leaf", "x")])])], "augs": [], "devs": []},
                         {"name": "czb", "data": [], "augs": [aug([("cza", "ch"), ("cza", "c1")], "y")], "devs": []}]}))
    # F393: `uses g` inside a USES-augment of an instance of g
    out.append(("f393", {"features": [], "typedefs": [], "groupings": [("g5", [N("container", "c", kids=[N("leaf", "x")])])],
                "mods": [{"name": "cyc", "data": [N("container", "n10", kids=[U("g5", augs=[{"path": [("-", "c")], "whens": 0, "status": 0, "iffs": [],
                          "kids": [N("container", "d", kids=[U("g5")])]}])])], "augs": [], "devs": []}]}))
    # operations in groupings: the child set of an inner uses (data nodes, actions, notifications) gets the when / if-feature of the
    # enclosing uses and of an augment
    gop = [N("leaf", "gl"), N("action", "act", kids=[N("input", "input", kids=[N("leaf", "p", mand=True)]), N("output", "output", kids=[N("leaf", "r", ref="int8")])]),
           N("notification", "evt", kids=[N("leaf", "sev", ref="uint8", dflts=["3"])])]
    gout = [U("gop", whens=1, iffs=["f1"]), N("leaf", "ol")]
    for feats in ([], ["f1"], ["f1", "f2"]):
        out.append(("ops-child-set-%d" % len(feats), {"features": feats, "typedefs": [], "groupings": [("gop", gop), ("gout", gout)],
                    "mods": [{"name": "cwo", "data": [N("container", "c1", kids=[U("gout", whens=1)]), N("container", "c2", config=False, kids=[N("leaf", "z")]),
                                                       N("action", "op", kids=[N("input", "input", kids=[N("leaf", "a1")]), N("output", "output", kids=[])]),
                                                       N("notification", "topevt", kids=[N("leaf", "t1")])], "augs": [], "devs": []},
                             {"name": "cwp", "data": [], "augs": [{"path": [("cwo", "c2")], "whens": 1, "status": 0, "iffs": ["f2"], "kids": [U("gop")]},
                                                                  {"path": [("cwo", "op"), ("cwo", "input")], "whens": 0, "status": 0, "iffs": [], "kids": [N("leaf", "a2", mand=True)]},
                                                                  {"path": [("cwo", "c1"), ("cwo", "evt")], "whens": 0, "status": 0, "iffs": [], "kids": [N("leaf", "more")]}], "devs": []}]}))
    # F394: `uses g` in an augment whose target is inside a SHORTHAND case of g's choice: the nested copy loses the later cases
    g94 = [N("choice", "ch", kids=[N("container", "a", kids=[N("leaf", "x")]), N("leaf", "b"), N("case", "c", kids=[N("leaf", "y")])])]
    out.append(("f394", {"features": [], "typedefs": [], "groupings": [("g9", g94)],
                "mods": [{"name": "cea", "data": [N("container", "top", kids=[U("g9")])],
                          "augs": [{"path": [("cea", "top"), ("cea", "ch"), ("cea", "a"), ("cea", "a")], "whens": 0, "status": 0, "iffs": [], "kids": [U("g9")]}], "devs": []}]}))
    # F395: deviate add max-elements after a refine of max-elements
    out.append(("f395", {"features": [], "typedefs": [], "groupings": [("g9", [N("leaf-list", "ll")])],
                "mods": [{"name": "cfa", "data": [N("container", "top", kids=[U("g9", [rf(["ll"], max=3)])])], "augs": [], "devs": []},
                         {"name": "cfb", "data": [], "augs": [], "devs": [{"path": [("cfa", "top"), ("cfa", "ll")], "deviates": [{"kind": "add", "dflts": [], "config": None, "mand": None, "min": None, "max": 5, "units": None}]}]}]}))
    # deviate not-supported on the input of an rpc: the children go, the embedded input node stays
    out.append(("dev-input", {"features": [], "typedefs": [], "groupings": [],
                "mods": [{"name": "cda", "data": [N("action", "op", kids=[N("input", "input", kids=[N("leaf", "a"), N("leaf", "b", mand=True)]), N("output", "output", kids=[N("leaf", "r")])])], "augs": [], "devs": []},
                         {"name": "cdb", "data": [], "augs": [], "devs": [{"path": [("cda", "op"), ("cda", "input")], "deviates": [{"kind": "not-supported", "dflts": [], "config": None, "mand": None, "min": None, "max": None, "units": None}]}]}]}))
    # mandatory child disabled by if-feature: the parent's mandatory flag
    out.append(("mand-disabled", {"features": [], "typedefs": [], "groupings": [],
                "mods": [{"name": "cwi", "data": [N("container", "c", kids=[N("leaf", "x", mand=True, iffs=["f1"]), N("leaf", "y")]),
                                                   N("container", "d", kids=[N("container", "e", kids=[N("leaf", "x", mand=True)])])], "augs": [], "devs": []}]}))
    return out


def add_on_refined(s):
    """the set has a `deviate add` of min/max-elements and a refine of min/max-elements (decidable over-approximation of the F395 shape)"""
    dev = any(x["kind"] == "add" and (x["min"] is not None or x["max"] is not None) for m in s["mods"] for d in m["devs"] for x in d["deviates"])
    if not dev:
        return False
    def walk(kids):
        for c in kids:
            if c["k"] == "U":
                if any(r["min"] is not None or r["max"] is not None for r in c["refines"]): return True
                if any(walk(a["kids"]) for a in c["augs"]): return True
            elif walk(c["kids"]): return True
        return False
    return any(walk(b) for _, b in s["groupings"]) or any(walk(m["data"]) or any(walk(a["kids"]) for a in m["augs"]) for m in s["mods"])


def classify_exp(component, what, case):
    """findings of the compiler core: F390 by the check's own witness comparison, F391 by the crash site"""
    if case.get("finding_class") in ("F390", "F392", "F393", "F394", "F395"):
        return case["finding_class"]
    if case.get("crash") and component == "compile":
        m = re.search(r"schema_compile_node\.c:(\d+):", what)
        if m and "null pointer of type 'struct lysc_module'" in what:
            try:
                import os
                from vlib import paths
                line = open(os.path.join(paths.REPO, "src", "schema_compile_node.c")).read().split("\n")[int(m.group(1)) - 1]
            except (OSError, IndexError):
                line = ""
            if "ctx->cur_mod->compiled->rpcs" in line or "ctx->cur_mod->compiled->notifs" in line:
                return "F391"
    return None


# ======================================================================================================================
def run_exp(cx):
    rng = cx.sub_rng("c11exp")
    Gen.FIX = src_flags()
    cx.dist["c11exp:source-has-repairs:" + (",".join(k for k in ("f390", "f391", "f392") if Gen.FIX.get(k)) or "none")] += 1
    nsets = cx.n(70, 1500)
    cx.rule("c11exp: %d generated schema values of the compiler-core DSL (typedef chains reused by several leaves, nested groupings with refines at "
            "several levels and uses-augments, choice/case + shorthand, chained / sibling top-level augments over 1-4 modules, deviations, if-feature, "
            "when, status) + 1 in 6 damaged (refine / augment / deviation target missing, wrong kind, duplicate name, config, min>max, default "
            "outside the range, ...) + hand witnesses; each in <= 4 load orders x immediate/explicit compile, structured AND expanded (flattened) "
            "rendering; libyang's compiled tree dump must equal the model's token for token; non-trivial = distinct (set, order, mode, rendering)" % nsets)
    cases = [(nm, s, "witness") for nm, s in witnesses()]
    for si in range(nsets):
        try:
            s = strip(Gen(rng, si).schema())
        except (IndexError, ValueError, KeyError):
            continue
        tag = "valid"
        if rng.random() < 1 / 6:
            s, what = mutate_invalid(rng, s)
            tag = "damaged:" + what
        cases.append(("g%d" % si, s, tag))
        txt = " ".join(ser_schema(s))
        cx.dist["c11exp:sets-with-operations"] += int(" N action " in txt or " N notification " in txt)
        cx.dist["c11exp:sets-with-operations-in-groupings"] += int(any(n_["kind"] in ("action", "notification") for g_, b_ in s["groupings"] for n_ in b_ if n_["k"] == "N"))
    mlines, meta = [], {}
    def ml(op, order, s):
        l = "%d iff %s %s %s" % (len(mlines), op, ",".join(order), " ".join(ser_schema(s)))
        mlines.append(l)
        return str(len(mlines) - 1)
    plan = []
    for nm, s, tag in cases:
        names = [m["name"] for m in s["mods"]]
        orders = list(itertools.permutations(names))
        if len(orders) > 4:
            orders = [orders[0]] + rng.sample(orders[1:], 3)
        ids = [(o, ml("cdump", o, s)) for o in orders]
        plan.append((nm, s, tag, names, ids, ml("cflat", orders[0], s), ml("cexpand", orders[0], s)))
    rm = cx.run_model(mlines)
    hlines, hmeta = [], {}
    def hl(s, order, ex, names):
        units = render(s)
        idx = {n: i for i, (n, _) in enumerate(units)}
        spec = "%s=%s" % (names[0], ",".join(s["features"]))
        l = "%d cmp cdump %d %s %s %s %s" % (len(hlines), ex, ",".join(str(idx[o]) for o in order), ",".join(names), hexs(spec.encode()),
                                              " ".join("m:%s:%s" % (n, hexs(t.encode())) for n, t in units))
        hlines.append(l)
        return str(len(hlines) - 1)
    for nm, s, tag, names, ids, fid, eid in plan:
        for o, mid in ids:
            for ex in (0, 1):
                hmeta[hl(s, o, ex, names)] = (nm, tag, "structured", o, ex, mid, s)
        er = rm.get(eid, ["err", "NoReply"])
        if er[0] == "ok":
            try:
                fs = Rd(er[1:]).schema()
            except (IndexError, ValueError, AssertionError):
                cx.disagree("compile", mlines[int(eid)][:300], ["unparsable-cexpand"], er[:6])
                continue
            o = ids[0][0]
            hmeta[hl(fs, o, 0, names)] = (nm, tag, "flattened", o, 0, ids[0][1], fs)
    ri = cx.run_impl(HARNESS, hlines, component="compile", timeout=900)
    # witnesses of F390 / F393 (structured: false "references itself" error; the RFC expansion compiles): when the model predicts the
    # split verdict (defect present in the source under test), libyang must show it on BOTH renderings, and the finding is reported
    SPLIT = {"f390": ("F390", "a top-level augment"), "f393": ("F393", "a uses-augment")}
    split_seen = set()
    for wn, (fid, where) in SPLIT.items():
        pw = [x for x in plan if x[0] == wn]
        if not pw:
            continue
        m_st = rm.get(pw[0][4][0][1], ["err", "NoReply"]); m_fl = rm.get(pw[0][5], ["err", "NoReply"])
        if not (m_st[:2] == ["err", "Fail"] and m_fl[0] == "ok"):
            continue
        split_seen.add(wn)
        w = {(rend, o, ex): ri.get(hid, ["err", "NoReply"]) for hid, (nm, tag, rend, o, ex, mid, s) in hmeta.items() if nm == wn}
        st = [v for (rend, o, ex), v in w.items() if rend == "structured"]
        fl = [v for (rend, o, ex), v in w.items() if rend == "flattened"]
        if st and fl and all(v[:2] == ["err", "Fail"] for v in st) and all(v[0] == "ok" for v in fl):
            cx.fail("compile", "valid module set rejected: uses of a grouping inside %s of a node instantiated from the same grouping (false circular-reference error); its RFC expansion compiles" % where,
                    {"units": render(pw[0][1]), "finding_class": fid})
    # law on libyang's own reply (mandatory_parents): a non-presence container is flagged mandatory only if one of its children is
    for hid, (nm, tag, rend, o, ex, mid, s) in hmeta.items():
        a = ri.get(hid, ["err", "NoReply"])
        if a[0] != "ok" or rend != "structured" or ex != 0 or o != tuple(m["name"] for m in s["mods"]):
            continue
        toks = [t.split("|") for t in a[1:] if "|" in t]
        for t in toks:
            if t[1] == "container" and t[4] == "M" and t[5] != "P":
                kids = [k for k in toks if k[0].startswith(t[0] + "/") and k[0].count("/") == t[0].count("/") + 1]
                if not any(k[4] == "M" for k in kids):
                    cx.fail("compile", "non-presence container keeps LYS_MAND_TRUE although none of its (remaining) children is mandatory: the mandatory child was removed as disabled (if-feature / not-supported) without lys_compile_mandatory_parents(parent, 0)",
                            {"units": render(s), "container": t[0], "finding_class": "F392"})
                    break
    plan_by = {x[0]: x for x in plan}
    by_run = {(m_[0], m_[2], m_[3], m_[4]): ri.get(h_, ["err", "NoReply"]) for h_, m_ in hmeta.items()}
    for hid in sorted(hmeta, key=int):
        nm, tag, rend, o, ex, mid, s = hmeta[hid]
        a = ri.get(hid, ["err", "NoReply"])
        b = rm.get(mid, ["err", "NoReply"])
        if rend == "flattened":
            b = rm.get(plan_by[nm][5], ["err", "NoReply"])     # the model's compile of the expansion (same load order)
            if a[:2] == ["err", "Fail"] and b[0] == "ok" and add_on_refined(plan_by[nm][1]):
                # `deviate add min/max-elements` of a property a refine has set: accepted on the structured set (a refine does not set
                # LYS_SET_MIN / LYS_SET_MAX), rejected on the expanded text where the property is an ordinary statement (finding F395)
                cx.dist["c11exp:flattened-not-compared:deviate-add-of-a-refined-property"] += 1
                st_ok = [ri.get(h2, ["err"])[0] == "ok" for h2, m2 in hmeta.items() if m2[0] == nm and m2[2] == "structured"]
                if st_ok and all(st_ok):
                    cx.fail("compile", "deviate add of min/max-elements is accepted although a refine has already set the property (the expanded module is rejected)",
                            {"units": render(plan_by[nm][1]), "finding_class": "F395"})
                continue
        if nm == "f394" and rend == "structured" and a[0] == "ok" and b[0] == "ok" and a != b and set(a) < set(b):
            cx.fail("compile", "nested instantiation of a grouping from an augment applied inside a shorthand case of the same grouping loses the later cases of the choice",
                    {"units": render(s), "missing": sorted(set(b) - set(a)), "finding_class": "F394"})
            continue
        verdict = a[0] if a[0] == "ok" else " ".join(a[:2])
        cx.count((nm, rend, o, ex), True, "c11exp:%s:%s:%s" % (rend, tag.split(":")[0], verdict))
        if a[:2] == ["err", "Crash"] or a[:2] == ["err", "Timeout"]:
            continue
        if rend == "flattened":
            # two `when` statements (node + uses / augment) cannot be written on one node: the count is compared as 0 / >= 1
            # … and not at all on an action / notification (it only gets there from a uses / augment)
            clamp = lambda t: re.sub(r"\|[0-9]+$", "|*", t) if re.search(r"\|(action|RPC|notification)\|", t) else re.sub(r"\|[1-9][0-9]*$", "|1", t)
            a, b = [clamp(t) for t in a], [clamp(t) for t in b]
        if ex == 0 and a[:2] == ["err", "Fail"] and b[0] == "ok" and (tag.startswith("damaged") or by_run.get((nm, "structured", o, 1), ["err"])[0] == "ok"):
            # a set that only a LATER module repairs (min > max until a deviation replaces max; a default that does not fit its type
            # until a deviation makes the node not-supported): libyang compiles it with LY_CTX_EXPLICIT_COMPILE in the same order; with immediate
            # compilation the load of the damaged module alone fails; the model describes the completely loaded set
            cx.dist["c11exp:set-fails-before-the-repairing-module-is-loaded(immediate-mode;explicit-mode-compiles)"] += 1
            continue
        if a != b:
            cx.disagree("compile", hlines[int(hid)] + "  ## " + rend + " " + tag + " ## model: " + mlines[int(mid)][:2000], a, b)
    # the model's own law: compile = compile of the expansion; and it never runs out of fuel
    for nm, s, tag, names, ids, fid, eid in plan:
        a, b = rm.get(ids[0][1], ["err", "NoReply"]), rm.get(fid, ["err", "NoReply"])
        cx.count((nm, "cflat"), True, "c11exp:model-expand-law:" + (a[0] if a[0] == "ok" else " ".join(a[:2])))
        if a != b and sorted(a) == sorted(b):
            # same nodes, other sibling order: the expansion changes the order in which pending augments are consumed, and with
            # ly_set_rm (finding F81) that order decides the sibling order of one module's augments
            cx.dist["c11exp:model-expand-law:same-nodes-other-sibling-order-(F81)"] += 1
        elif a != b and nm not in split_seen and nm != "f394":
            cx.disagree("compile", mlines[int(fid)][:3000] + "  ## model law compile = compile . expand", a, b)
        for o, mid in ids:
            if rm.get(mid, ["err"])[:2] == ["err", "Fuel"]:
                cx.disagree("compile", mlines[int(mid)][:3000] + "  ## model out of fuel", ["-"], rm.get(mid))
    # load-order independence on the implementation's own replies: same node set (as sets of tokens) whatever the order / mode
    ref = {}
    for hid in sorted(hmeta, key=int):
        nm, tag, rend, o, ex, mid, s = hmeta[hid]
        a = ri.get(hid, ["err", "NoReply"])
        if rend != "structured" or a[:2] == ["err", "Crash"] or (tag.startswith("damaged") and a[0] != "ok"):
            continue
        if ex == 0 and a[0] != "ok" and by_run.get((nm, "structured", o, 1), ["err"])[0] == "ok":
            continue        # fails before the repairing module is loaded (counted above); the explicit-mode reply is compared
        key = tuple(sorted(a))
        if nm not in ref:
            ref[nm] = (key, o, ex)
        elif ref[nm][0] != key:
            cx.fail("compile", "compiled node set of a module set depends on load order / compile mode",
                    {"units": render(s), "order_a": list(ref[nm][1]), "explicit_a": ref[nm][2], "order_b": list(o), "explicit_b": ex})
    if hlines:
        cx.sample(hlines[0][:300])
