"""union, string patterns, identityref: correspondence of lean/LyModel/Val/{Union,Ident}.lean with src/plugins_types/{union,string,
identityref}.c (component `val`, property C03), and the laws evaluated on the implementation's own replies.

Descriptors (rendered to YANG by harness/api_types.c, interpreted by lean/LyModel/Val/DrvU.lean):
  U(<ty>|<ty>|...)                      union, members may be unions themselves (flattened by the schema compiler)
  pstr:<length parts>:<lvl>/<lvl>...    string with patterns; a level = `;`-separated [!]hex patterns = one typedef of the chain
  idref:<leafmod>:<base>+..@<ident>,..  identityref over a set of modules with identities

(K) same lines to the harness and to the model: validate / store under five hint sets / cmp / lybrt / unlyb (+ idfmt: XML prefixes,
    schema import prefixes, LYB) — replies equal token for token;
(L) laws on the implementation alone:
    union_accept_iff      the union accepts s iff some member, asked on its own, accepts s; the canonical value is that of the FIRST
                          accepting member (RFC 7950 9.12)
    string_accept_iff     a string with patterns accepts s iff the length holds and EVERY pattern of the typedef chain matches the whole
                          value (invert-match negated) - oracle: python `re.fullmatch` on the sub-grammar both agree on
    identityref_accept_iff the value resolves to an identity that is derived from ALL bases (RFC 7950 9.10.2) - oracle: transitive
                          closure computed here (finding F410: libyang accepts derivation from ANY base)
    the generic value laws of valcomp.laws_value (eq <=> canonical eq, sort total / consistent with eq / leaf-list order, LYB + dup
    round trip, canonical idempotence): F411 (identityref sort ignores the module), F412 (union values of different members with
    the same canonical string)."""
import itertools, re
from vlib.proto import hexs, unhex

HINT_DATA, HINT_SCHEMA, HINT_JSON_STRING, HINT_JSON_NUMBER, HINT_JSON_BOOL = 0x03F3, 0x03FF, 0x0011, 0x0002, 0x0020
HINTS = [HINT_SCHEMA, HINT_JSON_STRING, HINT_JSON_NUMBER, HINT_JSON_BOOL]


def hx(s):
    return hexs(s if isinstance(s, bytes) else s.encode())


# (union descriptor, value hex) -> index of the member that, asked on its own, is the first to accept the value under the data hints; filled by run_union,
# read by c03.classify (F412 is about values of DIFFERENT members)
MEMBER_OF = {}


# ------------------------------------------------------------------------------------------------ descriptors
def split_top(s):
    out, depth, cur = [], 0, ""
    for c in s:
        if c == "|" and depth == 0:
            out.append(cur); cur = ""
            continue
        depth += (c == "(") - (c == ")")
        cur += c
    out.append(cur)
    return out


def flatten(d):
    """member descriptors of a union descriptor, nested unions in place (lys_compile_type_union)"""
    if d.startswith("U(") and d.endswith(")"):
        return [m for p in split_top(d[2:-1]) for m in flatten(p)]
    return [d]


E1 = "enum:%s=1,%s=7,%s=-3" % (hx("a"), hx("1"), hx("x y"))
E2 = "enum:%s=0,%s=1,%s=2" % (hx("true"), hx("10"), hx("a x"))
B1 = "bits:%s=0,%s=3" % (hx("a"), hx("x"))
P_AB = "pstr::%s" % hx("[ab]*")
P_DIG = "pstr:1..3:%s" % hx("\\d+")

FIXED_UNIONS = [
    "U(i8|str)",                                         # "1" in int8 and string: int8 wins, " 1" too (whitespace), "1x" is a string
    "U(str:1..1|i16)",                                   # "1" is a string, "+1" / "01" / " 1" are the int16 1 with the same canonical "1"  (F412)
    "U(i8|U(%s|str:0..2)|d2)" % E1,                      # nested union; enum name "1" is shadowed by int8
    "U(%s|i8:-5..5|str)" % E1,                           # "1" in enum, int8 and string: the enum wins; "7" only int8-out-of-range -> string
    "U(bool|i8|str:0..4)",
    "U(u8|i8)",                                          # "-0" unsigned zero, "-1" second member
    "U(d1|i8)",                                          # base 0 under schema hints: "0x10" only int8
    "U(d1:-100..100|i16)",
    "U(%s|%s|str:0..3)" % (B1, E2),                      # "a x" / "x a" bits (the enum name "a x" is shadowed), "10" / "true" enum
    "U(i8|i8:1..5)",                                     # second member reachable only through LYB
    "U(%s|i16|str)" % P_AB,                              # pattern string first
    "U(i16|%s|%s)" % (P_DIG, P_AB),
    "U(U(i8|u8)|U(i16|u16)|U(U(i32|str:0..3)))",         # nesting depth 3 -> five members
    "U(str)",                                            # one member
    "U(i64|u64|d18)",
    "U(d2|d1)",                                          # "1.5" first, "1.25" first, canonical of d1 never reached
    "U(lref(i8)|lref(str:2..3)|bool)",                   # two leafref members: their values carry the TARGET's type (finding F424: sort finds neither)
    "U(i16|lref(d1)|str)",                               # a leafref member between ordinary ones
    "U(lref(%s)|lref(u8)|%s)" % (E1, P_DIG),
]
MEMBER_POOL = ["lref(i8)", "lref(str:0..2)", "i8", "u8", "i16:-300..300", "u16", "i32", "i64", "u64:0..5,9223372036854775808..18446744073709551615", "d1", "d3:-5000..5000", "bool", "str", "str:0..2",
               "str:2..3", E1, E2, B1, P_AB, P_DIG]

UNION_POOL = [b"", b" ", b"0", b"1", b"+1", b"01", b" 1", b"1 ", b"-0", b"-1", b"7", b"-3", b"10", b"127", b"128", b"255", b"256", b"-128", b"-129", b"300", b"-300", b"301",
              b"32767", b"32768", b"65535", b"65536", b"2147483647", b"2147483648", b"4294967296", b"9223372036854775807", b"9223372036854775808", b"18446744073709551615",
              b"18446744073709551616", b"-9223372036854775808", b"-9223372036854775809", b"0x10", b"0X1f", b"010", b"08", b"1.5", b"1.50", b"1.25", b"+1.5", b"-0.5", b"1.", b".5",
              b"100.0", b"100.1", b"5.000", b"5.0001", b"922337203685477580.7", b"92233720368547758.07", b"9.223372036854775807", b"true", b"false", b"True", b" true",
              b"a", b"b", b"ab", b"abab", b"aab", b"abc", b"x y", b"a x", b"x a", b"a  x", b"a a", b"1x", b"x", b"xy", b"xyz", b"wxyz", b"\xc3\xa9", b"\xe2\x82\xac1",
              b"12", b"123", b"1234", b"9", b"99", b"999", b"-", b"+", b"++1", b"1e1", b"\t1\n", b"1\x0b"]


def random_union(rng):
    k = rng.choice([2, 2, 3, 3, 4])
    ms = [rng.choice(MEMBER_POOL) for _ in range(k)]
    if rng.random() < 0.35:
        j = rng.randrange(0, k - 1)
        ms[j:j + 2] = ["U(%s)" % "|".join(ms[j:j + 2])]
    return "U(%s)" % "|".join(ms)


# ------------------------------------------------------------------------------------------------ patterns
P_ATOMS = ["a", "b", ".", "\\d", "[ab]", "[^a]", "[a-b]", "-", "1"]
P_QUANTS = ["", "", "*", "+", "?", "{1,2}", "{2}"]
P_ALPHABET = "ab1-"


def random_pattern(rng, n=None):
    """member of the sub-grammar of tools/checks/c18.py R1 on which XSD, PCRE2 and python `re` agree (no ^ $, no class subtraction, no
    line ends in the strings)"""
    def branch(k):
        s = ""
        for _ in range(k):
            if rng.random() < 0.2:
                s += "(" + alt(rng.randrange(1, 3)) + ")" + rng.choice(P_QUANTS)
            else:
                s += rng.choice(P_ATOMS) + rng.choice(P_QUANTS)
        return s

    def alt(k):
        if rng.random() < 0.3:
            return branch(k) + "|" + branch(rng.randrange(0, 3))
        return branch(k)
    return alt(n or rng.randrange(1, 4))


def py_pattern(p):
    return re.compile(p, re.S)


def pstr_desc(length, levels):
    return "pstr:%s:%s" % (length, "/".join(";".join(("!" if inv else "") + hx(p) for p, inv in lv) for lv in levels))


def pstr_types(rng, n):
    out = [(pstr_desc("", [[("[ab]*", False)]]), "", [("[ab]*", False)]),
           (pstr_desc("1..3", [[("[ab]*", False), ("aa", True)], [("a.*", False)]]), "1..3", [("[ab]*", False), ("aa", True), ("a.*", False)]),
           (pstr_desc("", [[("a+", False)], [(".*b", False)], [("..", True)]]), "", [("a+", False), (".*b", False), ("..", True)]),      # chain of three typedefs
           (pstr_desc("0..0,2..2", [[("\\d*", False)]]), "0..0,2..2", [("\\d*", False)]),
           (pstr_desc("", [[("", False)]]), "", [("", False)]),                                                                      # empty pattern: only ""
           (pstr_desc("", [[("(a|b)*-?", False), ("-", True)]]), "", [("(a|b)*-?", False), ("-", True)])]
    seen = {d for d, _, _ in out}
    while len(out) < n:
        nl = rng.choice([1, 1, 2, 3])
        levels = [[(random_pattern(rng), rng.random() < 0.25) for _ in range(rng.choice([1, 1, 2]))] for _ in range(nl)]
        length = rng.choice(["", "", "0..2", "1..3", "2..2,4..4"])
        d = pstr_desc(length, levels)
        if d not in seen:
            seen.add(d)
            out.append((d, length, [p for lv in levels for p in lv]))
    return out


def parts_of(spec):
    return [tuple(int(x) for x in p.split("..")) for p in spec.split(",")] if spec else []


# ------------------------------------------------------------------------------------------------ identities
class Graph:
    """identity set over three modules + the leaf module; defs in an order where bases come first"""

    def __init__(self, k, defs, disabled=()):
        self.k = k
        self.defs = defs                     # [( (mod, name), [(mod, name), ...] )]
        self.ids = [d[0] for d in defs]
        self.disabled = set(disabled)        # identities whose if-feature is false: they exist and can be bases, but are not values

    def text(self):
        return ",".join("%s.%s%s%s" % (i[0], i[1], "!" if i in self.disabled else "", ("<" + "+".join("%s.%s" % b for b in bs)) if bs else "")
                        for i, bs in self.defs)

    def derived(self, base, d):
        """transitive, irreflexive: d names base in a base statement, or an identity derived from base"""
        bs = dict(self.defs)
        seen, todo = set(), list(bs.get(d, []))
        while todo:
            x = todo.pop()
            if x == base:
                return True
            if x not in seen:
                seen.add(x)
                todo += bs.get(x, [])
        return False

    def mods(self):
        out = []
        for i, bs in self.defs:
            for m in [i[0]] + [b[0] for b in bs]:
                if m not in out:
                    out.append(m)
        return out


def diamond(k):
    a, b, c = "ma%d" % k, "mb%d" % k, "mc%d" % k
    return Graph(k, [((a, "top"), []), ((a, "other"), []), ((b, "left"), [(a, "top")]), ((b, "right"), [(a, "top")]), ((c, "bot"), [(b, "left"), (b, "right")]),
                     ((c, "left"), [(a, "top")]), ((c, "deep"), [(c, "bot")]), ((c, "both"), [(a, "other"), (b, "left")]), ((b, "lonely"), []),
                     ((b, "mid"), [(a, "top")]), ((c, "under"), [(b, "mid")]), ((c, "gone"), [(b, "left")])],
                 disabled=[(b, "mid"), (c, "gone")])       # `under` is derived from top THROUGH the disabled `mid`


def random_graph(rng, k):
    mods = ["ma%d" % k, "mb%d" % k, "mc%d" % k]
    names = ["top", "left", "right", "bot", "x", "y-1", "_z", "a.b", "left"]
    defs, used = [], set()
    n = rng.randrange(5, 10)
    for j in range(n):
        # a module may only use identities of modules before it (no import cycles) or its own
        mi = min(2, j * 3 // n) if rng.random() < 0.7 else rng.randrange(0, 3)
        for _ in range(20):
            i = (mods[mi], rng.choice(names))
            if i not in used:
                break
        else:
            continue
        used.add(i)
        cands = [d[0] for d in defs if mods.index(d[0][0]) <= mi]
        bs = []
        for _ in range(rng.choice([0, 1, 1, 2, 2])):
            if cands:
                b = rng.choice(cands)
                if b not in bs:
                    bs.append(b)
        defs.append((i, bs))
    return Graph(k, defs, disabled=[d[0] for d in defs if rng.random() < 0.15])


def idref_types(rng, g, leafk):
    """types over graph g: one, two and three bases; the leaf module owns an identity derived from the first base"""
    out = []
    roots = [i for i, bs in g.defs]
    for nb in (1, 2, 2, 3):
        bases = []
        for _ in range(nb):
            b = rng.choice(roots)
            if b not in bases:
                bases.append(b)
        lm = "lm%d" % leafk[0]
        leafk[0] += 1
        defs = list(g.defs) + [((lm, "loc"), [bases[0]])]
        gg = Graph(g.k, defs, g.disabled)
        out.append(("idref:%s:%s@%s" % (lm, "+".join("%s.%s" % b for b in bases), gg.text()), lm, bases, gg))
    return out


def idref_values(g, lm):
    out = set()
    for (m, n) in g.ids:
        out |= {("json", "%s:%s" % (m, n)), ("json", n), ("json", ":%s" % n), ("json", "%s:%s:" % (m, n)), ("json", " %s:%s" % (m, n)), ("json", "%s:%s " % (m, n)),
                ("json", "%s:" % m), ("json", "zz:%s" % n), ("json", "x%s:%s" % (m, n)), ("json", "%s:%sx" % (m, n)), ("json", "%s:%s" % (m.upper(), n)),
                ("xml", "x%s:%s" % (m, n)), ("xml", "%s:%s" % (m, n)), ("xml", n), ("xml", "p%s:%s" % (m, n)),
                ("schema", "p%s:%s" % (m, n)), ("schema", "%s:%s" % (m, n)), ("schema", n), ("schema", "v:%s" % n),
                ("lyb", "%s:%s" % (m, n)), ("lyb", n)}
    out |= {("json", ""), ("json", ":"), ("json", "::"), ("json", "loc"), ("json", "%s:loc" % lm), ("xml", "loc"), ("xml", "x%s:loc" % lm), ("schema", "loc"),
            ("schema", "p%s:loc" % lm), ("xml", ""), ("lyb", "")}
    return sorted(out)


# ------------------------------------------------------------------------------------------------ the run
def kind_of(case, reply):
    t = case.split()
    d = t[1]
    fam = "union" if d.startswith("U(") else d.split(":")[0]
    return "val:%s:%s:%s" % (t[0], fam, reply[0] if reply[0] == "ok" else reply[1])


def run_union(run):
    from checks import valcomp
    cx = run.cx
    rng = cx.sub_rng("union")
    unions = list(FIXED_UNIONS)
    while len(unions) < cx.n(26, 120):
        u = random_union(rng)
        if u not in unions:
            unions.append(u)
    members = {}
    for u in unions:
        members[u] = flatten(u)
    # ---- lexical pools: the shared pool + boundary values of the members
    cases = []
    lex_of = {}
    for u in unions:
        pool = set(UNION_POOL)
        for m in members[u]:
            m = m[5:-1] if m.startswith("lref(") else m
            head, parts = (m.split(":")[0], []) if m.startswith(("enum", "bits", "pstr")) else valcomp.parse_desc(m)
            for a, b in parts:
                for v in (a - 1, a, b, b + 1):
                    if re.match(r"d\d+$", head):
                        sg, ip, fr = valcomp.dec_render(v, int(head[1:]))
                        pool.add((sg + ip + "." + fr).encode())
                    else:
                        pool.add(str(v).encode())
        pool = sorted(pool)
        if u not in FIXED_UNIONS:
            pool = rng.sample(pool, cx.n(40, len(pool)))
        lex_of[u] = pool
        for s in pool:
            cases.append("validate %s %s" % (u, hx(s)))
            for m in set(members[u]):
                cases.append("validate %s %s" % (m, hx(s)))
        for s in pool[::cx.n(4, 1)]:
            for h in HINTS:
                cases.append("store %s %d %s" % (u, h, hx(s)))
                for m in set(members[u]):
                    cases.append("store %s %d %s" % (m, h, hx(s)))
    run.diff(cases)
    cx.rule("val: union: %d unions (16 hand-made: overlaps such as \"1\" in enumeration / int8 / string, a string member before a numeric one, nested unions up "
            "to depth 3, a member reachable only through LYB, pattern strings as members; the rest random over %d member types with 2-4 members, 35%% with a nested "
            "union); every lexical value also goes to every member type on its own; five hint sets (data, schema = base 0, JSON string / number / boolean)"
            % (len(unions), len(MEMBER_POOL)))

    # ---- a finite sub-space enumerated completely
    ex_alpha = b"01+- a."
    ex_unions = ["U(i8|str:0..2)", "U(str:1..1|i16)", "U(d1|u8|%s)" % E2]
    ex_strings = [bytes(t) for L in range(0, cx.n(3, 4) + 1) for t in itertools.product(ex_alpha, repeat=L)]
    ex_cases = []
    for u in ex_unions:
        members[u] = flatten(u)
        lex_of[u] = ex_strings
        if u not in unions:
            unions.append(u)
        for s in ex_strings:
            ex_cases.append("validate %s %s" % (u, hx(s)))
            for m in set(members[u]):
                ex_cases.append("validate %s %s" % (m, hx(s)))
    run.diff(ex_cases)
    cx.dist["val:union:exhaustive-strings"] = len(ex_strings)
    cx.rule("val: union EXHAUSTIVE sub-space: all %d strings of length <= %d over the 7-character alphabet {0,1,+,-,space,a,.} for three unions (and each "
            "of their members alone) through lyd_value_validate" % (len(ex_strings), cx.n(3, 4)))

    # ---- (L) union_accept_iff: first accepting member, asked on its own
    accepted = {}
    for u in unions:
        accepted[u] = []
        for s in lex_of[u]:
            for (op, h) in [("validate", None)] + [("store", h) for h in HINTS]:
                line = ("validate %s %s" % (u, hx(s))) if h is None else ("store %s %d %s" % (u, h, hx(s)))
                r = run.impl.get(line)
                if r is None:
                    continue
                want, who = None, None
                for k, m in enumerate(members[u]):
                    rm = run.get(("validate %s %s" % (m, hx(s))) if h is None else ("store %s %d %s" % (m, h, hx(s))))
                    if rm[0] == "ok":
                        want, who = rm[1], k
                        break
                got = r[1] if r[0] == "ok" else None
                cx.count(("law-union", u, s, h), True, "val:union:%s" % ("member=%d/%d" % (who, len(members[u])) if who is not None else "no-member"))
                if got != want:
                    cx.fail("val", "a union does not store the value with the first member type that accepts it on its own (RFC 7950 9.12)",
                            {"type": u, "value_hex": hx(s), "hints": h, "got": r, "first_member": who, "member_canonical": want, "law": "union_accept_iff"})
                if h is None and got is not None:
                    accepted[u].append(s)
                    MEMBER_OF[(u, hx(s))] = who
                # LYB form: member index + the member's LYB value
                if h is not None and r[0] == "ok" and who is not None:
                    rm = run.get("store %s %d %s" % (members[u][who], h, hx(s)))
                    wl = (who).to_bytes(4, "little") + unhex(rm[2])
                    if unhex(r[2]) != wl:
                        cx.fail("val", "LYB form of a union value is not the member index followed by the member's LYB value",
                                {"type": u, "value_hex": hx(s), "hints": h, "got": r, "want_lyb_hex": hexs(wl), "law": "union_lyb"})

    # ---- compare / sort / LYB round trip, canonical idempotence
    cases, pairs = [], {}
    for u in unions:
        acc = accepted[u]
        if not acc:
            continue
        sub = list(acc)
        rng.shuffle(sub)
        sub = sub[:cx.n(10, 30)]
        # values of different members with the same canonical string, if any
        by_canon = {}
        for s in acc:
            by_canon.setdefault(run.get("validate %s %s" % (u, hx(s)))[1], []).append(s)
        extra = [(a, b) for v in by_canon.values() for a in v[:3] for b in v[:3] if a != b]
        pr = [(a, b) for a in sub for b in sub]
        if len(pr) > cx.n(40, 300):
            pr = rng.sample(pr, cx.n(40, 300))
        pr = list(dict.fromkeys(pr + extra[:cx.n(6, 40)] + [(a, a) for a in sub[:2]]))
        pairs[u] = (sub, pr)
        for a, b in pr:
            cases.append("cmp %s %s %s" % (u, hx(a), hx(b)))
            cases.append("cmp %s %s %s" % (u, hx(b), hx(a)))
        for a in sub:
            cases.append("lybrt %s %s" % (u, hx(a)))
            c = unhex(run.get("validate %s %s" % (u, hx(a)))[1])
            cases.append("validate %s %s" % (u, hx(c)))
            cases += ["validate %s %s" % (m, hx(c)) for m in set(members[u])]
            if b"\x00" not in c:
                cases.append("cmp %s %s %s" % (u, hx(a), hx(c)))
    run.diff(cases)
    for u in pairs:
        for a in pairs[u][0]:
            c = unhex(run.get("validate %s %s" % (u, hx(a)))[1])
            if (u, hx(c)) not in MEMBER_OF:
                for k, m in enumerate(members[u]):
                    if run.get("validate %s %s" % (m, hx(c)))[0] == "ok":
                        MEMBER_OF[(u, hx(c))] = k
                        break
    valcomp.laws_value(run, {u: accepted[u] for u in pairs}, pairs)

    # ---- LYB decode: every member index (also the ones a text value never selects), bad sizes and indices
    sel = []
    for u in unions[:cx.n(20, 120)]:
        ms = members[u]
        for k, m in enumerate(ms + ["i8", "str"]):       # two indices beyond the array
            vals = [s for s in lex_of[u] if run.get("validate %s %s" % (m, hx(s)))[0] == "ok"][:cx.n(4, 12)] if k < len(ms) else [b"1"]
            sel += [(u, k, m, s) for s in vals]
    run.diff(["store %s %d %s" % (m, HINT_DATA, hx(s)) for _, _, m, s in sel])
    cases = []
    for u, k, m, s in sel:
        rm = run.get("store %s %d %s" % (m, HINT_DATA, hx(s)))
        if rm[0] != "ok":
            continue
        ml = unhex(rm[2])
        cases.append("unlyb %s %s" % (u, hexs(k.to_bytes(4, "little") + ml)))
        cases.append("unlyb %s %s" % (u, hexs(k.to_bytes(4, "little") + ml + b"\x00")))
    for u in unions[:cx.n(20, 120)]:
        for b in (b"", b"\x00", b"\x00\x00\x00", b"\x00\x00\x00\x00", b"\x01\x00\x00\x00", b"\xff\xff\xff\xff", b"\x00\x00\x00\x01\x31", b"\x00\x01\x00\x00\x31"):
            cases.append("unlyb %s %s" % (u, hexs(b)))
    run.diff(cases)
    routes_union(run, unions, lex_of, accepted)
    cx.rule("val: union LYB decode: for every member index (including members a text value never selects because an earlier member accepts it, and two indices "
            "beyond the array) the member's own LYB values, with and without a trailing byte; sizes 0..4, index 2^32-1, big-endian index")
    return unions


def routes_union(run, unions, lex_of, accepted):
    """the same lexical value through XML, JSON string, JSON literal, lyd_new_term, lyd_value_validate, a default statement and a path predicate:
    every route must give the verdict and canonical value of the union's store callback under that route's hints (the member that wins may differ
    between routes: a JSON number is offered to the members with the number hints, a default statement in base 0)"""
    from checks import valcomp
    from vlib import gen
    cx = run.cx
    rng = cx.sub_rng("union-routes")
    sel = []
    for u in unions[:cx.n(16, 120)]:
        acc = set(accepted.get(u, []))
        pool = [s for s in lex_of[u] if b"\x00" not in s and len(s) < 40]
        a = [s for s in pool if s in acc]
        r = [s for s in pool if s not in acc]
        rng.shuffle(a); rng.shuffle(r)
        k = cx.n(5, 30) if u in FIXED_UNIONS else cx.n(2, 10)
        sel += [(u, s) for s in a[:k] + r[:max(1, k // 2)]]
    cases, masks = [], {}
    for u, s in sel:
        mask = 8 | 16
        carrier = gen.is_yang_text(s)
        if valcomp.xml_plain(s) and carrier: mask |= 1
        if carrier: mask |= 2
        if valcomp.JSON_INT.match(s) or s in (b"true", b"false"): mask |= 4
        if all(0x20 <= c < 0x7f for c in s) and s.strip(b" ") == s and cx.dist["val:route:union-default-run"] < cx.n(40, 600) and "lref(" not in u:
            mask |= 32
            cx.dist["val:route:union-default-run"] += 1
        if not (b"'" in s and b'"' in s): mask |= 64
        masks[(u, s)] = mask
        cases.append("routes %s %d %s" % (u, mask, hx(s)))
    run.impl_only(cases, count_kind="val:routes:union")
    run.diff(["store %s %d %s" % (u, valcomp.route_hints(ro, "U", s), hx(s)) for u, s in sel for ro in valcomp.ROUTES])
    for u, s in sel:
        r = run.get("routes %s %d %s" % (u, masks[(u, s)], hx(s)))
        if r[0] != "ok":
            continue
        got = dict(zip(valcomp.ROUTES, r[1:]))
        for ro in valcomp.ROUTES:
            if got[ro] == "N":
                continue
            st = run.get("store %s %d %s" % (u, valcomp.route_hints(ro, "U", s), hx(s)))
            want = st[1] if st[0] == "ok" else "R"
            cx.count(("route-union", u, s, ro), True, "val:route:union:%s:%s" % (ro, "accept" if got[ro] != "R" else "reject"))
            if got[ro] != want:
                cx.fail("val", "route %s does not give the verdict of the union's value store under that route's hints" % ro,
                        {"type": u, "value_hex": hx(s), "route": ro, "got": got[ro], "store_under_route_hints": want, "all": got, "law": "route_is_store"})


def run_pstr(run):
    from checks import valcomp
    cx = run.cx
    rng = cx.sub_rng("pstr")
    types = pstr_types(rng, cx.n(40, 400))
    strings = [""] + ["".join(t) for L in range(1, 4) for t in itertools.product(P_ALPHABET, repeat=L)]
    longer = ["aaaa", "abab", "a-b1", "11111", "ab" * 4, "é", "aé", "€€"]
    cases = []
    for d, length, pats in types:
        if d in [t[0] for t in types[:6]]:
            pool = strings
        else:
            # mostly valid inputs: the strings of the grid the RFC reading accepts (all of them, up to a bound) and as many of the others
            cre = [(py_pattern(p), inv) for p, inv in pats]
            parts = parts_of(length)
            good = [x for x in strings if valcomp.in_parts(len(x), parts) and all((c.fullmatch(x) is not None) != inv for c, inv in cre)]
            bad = [x for x in strings if x not in set(good)]
            rng.shuffle(good); rng.shuffle(bad)
            good = good[:cx.n(20, 85)]
            pool = good + bad[:max(8, min(len(good), cx.n(16, 85)))]
        for s in pool + longer:
            cases.append("validate %s %s" % (d, hx(s)))
        for s in (pool + longer)[::7]:
            cases.append("store %s %d %s" % (d, HINT_JSON_NUMBER, hx(s)))
            cases.append("store %s %d %s" % (d, HINT_JSON_STRING, hx(s)))
    run.diff(cases)
    cx.rule("val: string patterns: %d types (6 hand-made incl. a chain of three typedefs, invert-match, the empty pattern, length + pattern; the rest random: 1-3 "
            "typedef levels x 1-2 patterns per level from the sub-grammar of the C18 family R1 on which XSD, PCRE2 and python re agree - atoms %s, quantifiers, "
            "groups, alternation; 25%% invert-match; five length sets) x all %d strings of length <= 3 over {a,b,1,-} (sampled for the random types) + longer and "
            "multi-byte strings" % (len(types), " ".join(P_ATOMS), len(strings)))
    acc = {}
    for d, length, pats in types:
        cre = [(py_pattern(p), inv) for p, inv in pats]
        parts = parts_of(length)
        acc[d] = []
        for s in strings + longer:
            r = run.impl.get("validate %s %s" % (d, hx(s)))
            if r is None:
                continue
            len_ok = valcomp.in_parts(len(s), parts)
            pat_ok = all((c.fullmatch(s) is not None) != inv for c, inv in cre)
            want = len_ok and pat_ok
            cx.count(("law-pstr", d, s), True, "val:pstr:%s" % ("accept" if r[0] == "ok" else r[1]))
            if (r[0] == "ok") != want or (r[0] == "ok" and unhex(r[1]) != s.encode()) or (r[0] != "ok" and r[1] != ("Length" if not len_ok else "Pattern")):
                cx.fail("val", "a string with patterns is not accepted exactly when the length holds and every pattern of the typedef chain matches the whole value",
                        {"type": d, "value_hex": hx(s), "got": r, "length_ok": len_ok, "patterns_ok": pat_ok, "law": "string_accept_iff"})
            if r[0] == "ok":
                acc[d].append(s.encode())
    # compare / sort / LYB for a few
    cases, pairs = [], {}
    for d, _, _ in types[:cx.n(10, 60)]:
        sub = acc[d][:8]
        if len(sub) < 2:
            continue
        pr = [(a, b) for a in sub for b in sub][:cx.n(20, 64)]
        pairs[d] = (sub, pr)
        for a, b in pr:
            cases += ["cmp %s %s %s" % (d, hx(a), hx(b)), "cmp %s %s %s" % (d, hx(b), hx(a))]
        for a in sub:
            cases += ["lybrt %s %s" % (d, hx(a)), "unlyb %s %s" % (d, hx(a))]
        cases += ["unlyb %s %s" % (d, hx(s)) for s in ("zz", "aaaaaaaa", "")]
    run.diff(cases)
    valcomp.laws_value(run, {}, pairs)


def run_idref(run):
    from checks import valcomp
    cx = run.cx
    rng = cx.sub_rng("idref")
    graphs = [diamond(0)] + [random_graph(rng, k) for k in range(1, cx.n(5, 30))]
    leafk = [0]
    types = []
    for g in graphs:
        types += idref_types(rng, g, leafk)
    types[0] = ("idref:lmd:ma0.top@" + Graph(0, diamond(0).defs + [(("lmd", "loc"), [("mb0", "left")])], diamond(0).disabled).text(), "lmd", [("ma0", "top")],
                Graph(0, diamond(0).defs + [(("lmd", "loc"), [("mb0", "left")])], diamond(0).disabled))
    types[1] = ("idref:lme:mb0.left+mb0.right@" + Graph(0, diamond(0).defs + [(("lme", "loc"), [("mb0", "left")])], diamond(0).disabled).text(), "lme", [("mb0", "left"), ("mb0", "right")],
                Graph(0, diamond(0).defs + [(("lme", "loc"), [("mb0", "left")])], diamond(0).disabled))
    cases, vals = [], {}
    nschema = 0
    for d, lm, bases, g in types:
        vs = idref_values(g, lm)
        vals[d] = vs
        for fmt, v in vs:
            if fmt == "json":
                cases.append("validate %s %s" % (d, hx(v)))
            elif fmt == "schema":
                if nschema >= cx.n(60, 600) or any(ord(c) < 0x20 for c in v):
                    continue
                nschema += 1
            if fmt != "json" or rng.random() < 0.3:
                cases.append("idfmt %s %s %s" % (d, fmt, hx(v)))
        for fmt, v in vs[::9]:
            for h in (HINT_JSON_NUMBER, HINT_JSON_STRING, HINT_SCHEMA):
                cases.append("store %s %d %s" % (d, h, hx(v)))
    run.diff(cases)
    cx.rule("val: identityref: %d identity sets over three modules each (a hand-made diamond: bot derived from left and right, both derived from top, a "
            "second identity named `left` in another module, a chain, an identity derived from two unrelated bases; the rest random DAGs of 5-9 identities with "
            "0-2 bases, names reused across modules) x 4 types each (1, 2, 2, 3 bases; the leaf module owns an identity of its own); every identity in every "
            "spelling: module name / no prefix / empty prefix / unknown prefix / trailing colon / surrounding space, XML prefixes (declared x<mod>, module name, "
            "default namespace), schema import prefixes (p<mod>, module name, local), LYB" % (len(graphs), ))

    # ---- (L) identityref_accept_iff against the RFC reading (ALL bases), resolution per format written here
    for d, lm, bases, g in types:
        mods = g.mods() + ([lm] if lm not in g.mods() else [])
        for fmt, v in vals[d]:
            line = ("validate %s %s" % (d, hx(v))) if fmt == "json" else ("idfmt %s %s %s" % (d, fmt, hx(v)))
            r = run.impl.get(line)
            if r is None:
                continue
            pfx, sep, name = v.partition(":")
            if not sep:
                pfx, name = "", v
            table = {"json": {m: m for m in mods}, "lyb": {m: m for m in mods}, "xml": {"x" + m: m for m in mods},
                     "schema": dict({"p" + m: m for m in mods}, v="#")}[fmt]
            dflt = "#" if fmt == "schema" else lm
            mod = table.get(pfx) if pfx else dflt
            ident = (mod, name) if mod is not None and (mod, name) in g.ids else None
            want = None
            if ident is not None and name:
                der = [g.derived(b, ident) for b in bases]
                want = ("%s:%s" % ident) if all(der) and ident not in g.disabled else None
            else:
                der = []
            got = unhex(r[1]).decode() if r[0] == "ok" else None
            cx.count(("law-idref", d, fmt, v), True, "val:idref:%s:%s" % (fmt, "accept" if r[0] == "ok" else r[1]))
            if got != want:
                cx.fail("val", "an identityref value is not accepted exactly when it names an identity derived from all the bases of the type (RFC 7950 9.10.2)",
                        {"type": d, "format": fmt, "value": v, "got": r, "rfc": want, "derived_from_base": der, "bases": ["%s:%s" % b for b in bases],
                         "law": "identityref_accept_iff"})
    # ---- compare / sort / LYB
    cases, pairs, accepted = [], {}, {}
    for d, lm, bases, g in types[:cx.n(12, 80)]:
        acc = [v.encode() for fmt, v in vals[d] if fmt == "json" and run.get("validate %s %s" % (d, hx(v)))[0] == "ok"]
        if len(acc) < 2:
            continue
        accepted[d] = acc
        pr = [(a, b) for a in acc for b in acc]
        if len(pr) > cx.n(36, 200):
            pr = rng.sample(pr, cx.n(36, 200))
        # identities of one name in different modules (the witness family of F411) are always compared
        pr = list(dict.fromkeys(pr + [(a, b) for a in acc for b in acc if a != b and a.split(b":")[-1] == b.split(b":")[-1]][:8]))
        pairs[d] = (acc[:8], pr)
        for a, b in pr:
            cases += ["cmp %s %s %s" % (d, hx(a), hx(b)), "cmp %s %s %s" % (d, hx(b), hx(a))]
        for a in acc[:8]:
            cases.append("lybrt %s %s" % (d, hx(a)))
            c = unhex(run.get("validate %s %s" % (d, hx(a)))[1])
            cases += ["validate %s %s" % (d, hx(c)), "cmp %s %s %s" % (d, hx(a), hx(c)), "unlyb %s %s" % (d, hx(c))]
    run.diff(cases)
    valcomp.laws_value(run, accepted, pairs)


def distribution(cx):
    """one line for the evidence: which member position won, reject reasons of the pattern strings, identityref verdicts per format"""
    import collections
    pos, pst, idr = collections.Counter(), collections.Counter(), collections.Counter()
    for k, v in cx.dist.items():
        if k.startswith("val:union:member="):
            pos["member %s" % k.split("=")[1].split("/")[0]] += v
        elif k.startswith("val:union-validate:"):
            pos["after validation " + k.split(":", 2)[2]] += v
        elif k == "val:union:no-member":
            pos["no member"] += v
        elif k.startswith("val:pstr:"):
            pst[k.split(":", 2)[2]] += v
        elif k.startswith("val:idref:"):
            idr[k.split(":", 2)[2]] += v
    fmt = lambda c: ", ".join("%s: %d" % kv for kv in sorted(c.items()))
    cx.rule("val: distribution - union (value, hint set) cases by position of the winning member: %s | pattern strings: %s | identityref by format:verdict: %s"
            % (fmt(pos), fmt(pst), fmt(idr)))


def run_union_idref(run):
    """unions with an identityref member (the common `union { type identityref {...} type string; }` shape): the union hands its format and prefix data
    on to the member, so the SAME text is an identity in one format and a plain string in another"""
    from checks import valcomp
    cx = run.cx
    rng = cx.sub_rng("union-idref")
    cases, types, vals = [], [], {}
    for k in range(cx.n(3, 16)):
        g0 = diamond(100 + k) if k == 0 else random_graph(rng, 100 + k)
        roots = [i for i, _ in g0.defs]
        bases = [rng.choice(roots)] if k else [("ma100", "top")]
        for shape in range(2):
            lm = "lu%d" % (2 * k + shape)
            g = Graph(g0.k, list(g0.defs) + [((lm, "loc"), [bases[0]])], g0.disabled)
            idd = "idref:%s:%s@%s" % (lm, "+".join("%s.%s" % b for b in bases), g.text())
            u = ("U(%s|str:0..12)" % idd) if shape == 0 else ("U(i8|%s|%s)" % (idd, E2))
            types.append((u, lm, g))
    for u, lm, g in types:
        vs = [(f, v) for f, v in idref_values(g, lm) if len(v) <= 14] + [("json", "1"), ("json", "true"), ("json", "-129"), ("xml", "10"), ("json", "a" * 13)]
        vs = vs if cx.tier == "thorough" else rng.sample(vs, min(len(vs), 60))
        vals[u] = vs
        nsch = 0
        for fmt, v in vs:
            if fmt == "json":
                cases.append("validate %s %s" % (u, hx(v)))
                cases.append("idfmt %s json %s" % (u, hx(v)))
            elif fmt == "lyb":
                for idx in (0, 1, 2, 3):
                    cases.append("idfmt %s lyb %s" % (u, hexs(idx.to_bytes(4, "little") + v.encode())))
            elif fmt == "schema":
                if nsch < cx.n(6, 40) and all(ord(c) >= 0x20 for c in v):
                    nsch += 1
                    cases.append("idfmt %s schema %s" % (u, hx(v)))
            else:
                cases.append("idfmt %s %s %s" % (u, fmt, hx(v)))
        for fmt, v in vs[::7]:
            for h in (HINT_JSON_NUMBER, HINT_JSON_STRING):
                cases.append("store %s %d %s" % (u, h, hx(v)))
    run.diff(cases)
    cx.rule("val: unions with an identityref member: %d unions (identityref + string; int8 + identityref + enumeration) over %d identity sets; every identity in "
            "every spelling through JSON (module names), XML prefixes, schema import prefixes and LYB with every member index" % (len(types), len(types) // 2))
    for c in cases:
        r = run.get(c)
        t = c.split()
        cx.count(("union-idref", c), True, "val:union-idref:%s:%s" % (t[2] if t[0] == "idfmt" else t[0], "accept" if r[0] == "ok" else r[1]))
    cases, pairs, accepted = [], {}, {}
    for u, lm, g in types:
        acc = [v.encode() for f, v in vals[u] if f == "json" and run.get("validate %s %s" % (u, hx(v)))[0] == "ok"]
        if len(acc) < 2:
            continue
        accepted[u] = acc
        pr = [(a, b) for a in acc for b in acc]
        if len(pr) > cx.n(30, 200):
            pr = rng.sample(pr, cx.n(30, 200))
        pairs[u] = (acc[:6], pr)
        for a, b in pr:
            cases += ["cmp %s %s %s" % (u, hx(a), hx(b)), "cmp %s %s %s" % (u, hx(b), hx(a))]
        for a in acc[:6]:
            c = unhex(run.get("validate %s %s" % (u, hx(a)))[1])
            cases += ["lybrt %s %s" % (u, hx(a)), "validate %s %s" % (u, hx(c)), "cmp %s %s %s" % (u, hx(a), hx(c))]
    run.diff(cases)
    valcomp.laws_value(run, accepted, pairs)


VALID_UNIONS = ["U(lrefr(i8)|str:0..3)", "U(lrefr(i8)|lrefr(str:1..2)|bool)", "U(i16:0..5|lrefr(d1)|lrefr(i8))", "U(lrefr(%s)|lrefr(u8)|%s)" % (E1, E2),
                "U(str:1..1|lrefr(i16))", "U(lrefr(i8))", "U(lrefr(i8)|lrefr(i8:1..5)|str:0..2)", "lrefr(i8)", "lrefr(str:1..3)"]
VALID_POOL = [b"1", b"+1", b"01", b"7", b"-3", b"a", b"x y", b"true", b"10", b"3", b"9", b"127", b"128", b"1.5", b"7.0", b"xy", b"abcd", b"", b" 1"]


def run_union_valid(run):
    """the `validate` callback of union (lyd_validate_*): members with require-instance are resolved against the data tree, the members are tried
    again in order and the value may end up with ANOTHER member than at store time"""
    cx = run.cx
    rng = cx.sub_rng("union-valid")
    cases = []
    for u in VALID_UNIONS:
        for s in VALID_POOL:
            tsets = [[], [s], [b"1", b"7"], [b"2", b"+1", b"a"], [b"xy", b"10", b"7.0"]]
            tsets.append(rng.sample(VALID_POOL, 3))
            for ts in (tsets if cx.tier == "thorough" or u in VALID_UNIONS[:4] else tsets[:3]):
                cases.append("uvalid %s %s%s" % (u, hx(s), "".join(" " + hx(t) for t in ts)))
    run.diff(cases)
    for c in cases:
        r = run.get(c)
        cx.count(("uvalid", c), True, "val:union-validate:%s" % ("member=%s" % r[2] if r[0] == "ok" else r[1]))
        # (L) the validated value keeps the canonical form the store gave it or the value is refused: validation never invents a value
        t = c.split()
        st = run.impl.get("validate %s %s" % (t[1], t[2]))
        if r[0] == "ok" and st is not None and st[0] != "ok":
            cx.fail("val", "a value the type refuses is accepted by validation", {"type": t[1], "value_hex": t[2], "got": r, "store": st, "law": "validate_implies_store"})
    # a leafref on its own: compare / sort / LYB / dup are the callbacks of the target's type, reached through the leafref plug-in
    from checks import valcomp
    cases, pairs, accepted = [], {}, {}
    for d in ("lref(i8)", "lref(str:0..3)", "lrefr(d1)", "lref(%s)" % E1):
        acc = [s for s in VALID_POOL + [b"-128", b"0.5", b"b", b"ab"] if (run.impl.get("validate %s %s" % (d, hx(s))) or ["?"])[0] == "ok"]
        if not acc:
            run.diff(["validate %s %s" % (d, hx(s)) for s in VALID_POOL + [b"-128", b"0.5", b"b", b"ab"]])
            acc = [s for s in VALID_POOL + [b"-128", b"0.5", b"b", b"ab"] if run.get("validate %s %s" % (d, hx(s)))[0] == "ok"]
        accepted[d] = acc
        pr = [(a, b) for a in acc for b in acc][:cx.n(40, 200)]
        pairs[d] = (acc[:6], pr)
        for a, b in pr:
            cases += ["cmp %s %s %s" % (d, hx(a), hx(b)), "cmp %s %s %s" % (d, hx(b), hx(a))]
        for a in acc[:6]:
            c = unhex(run.get("validate %s %s" % (d, hx(a)))[1])
            cases += ["lybrt %s %s" % (d, hx(a)), "validate %s %s" % (d, hx(c)), "cmp %s %s %s" % (d, hx(a), hx(c))]
    run.diff(cases)
    valcomp.laws_value(run, accepted, pairs)
    cx.rule("val: union / leafref validation (lyd_validate_module): %d types with require-instance leafref members x %d values x up to 6 sets of target instances; "
            "reply = canonical value and the member that holds the value AFTER validation" % (len(VALID_UNIONS), len(VALID_POOL)))


def run_all(run):
    run_union_valid(run)
    run_union(run)
    run_pstr(run)
    run_idref(run)
    run_union_idref(run)
    distribution(run.cx)
