"""C09 — a failed schema operation leaves the context exactly as it was.

(K) `ctx history`: module sets + histories + failure-inducing edits through libyang's public API (harness/api_ctx.c) and
    through the Lean model (LyModel/Ctx/Model.lean); after EVERY call the observable state is compared token for token:
    module list with revisions, implemented, latest_revision bits, every feature value, the class of the YANG_COMPILED
    print of every implemented module, ly_ctx_get_modules_hash (32-bit value), ly_ctx_get_change_count, and whether a live
    data tree still points to existing compiled nodes.
(L) the property's laws evaluated on the implementation's own replies: snapshot before = snapshot after for every failed
    call, data trees usable, and "a later load behaves as if the failed attempt never happened" (the same history without
    the failed call must end in the same observable state).
A law failure is attributed to a known finding only when (1) the model — which has exactly the listed defects, each with a
proved `_fails` theorem — predicts the very same outcome and (2) the finding's own predicate matches what changed."""
import itertools
from checks import ctxcomp as cc
from checks.ctxcomp import Mod, Feat, Sub, History, Snap

LEAN_TARGETS = ["LyModel.Props.C09", "LyModel.Props.C09Compiled", "LyModel.Props.C09DepSet"]
AUDIT = "Audit/C09.lean"
GENERATED = ["CtxFacts"]
ASSUMPTIONS = [
    "module contents are abstract in the model (ModSrc): which stage refuses an edited module, and with which LY_ERR, is supplied by the generator "
    "(tools/checks/ctxcomp.py: apply_edit) and checked against libyang on every case",
    "compiled schemas are compared by the class of the LYS_OUT_YANG_COMPILED print; the generated modules make every feature, augment and "
    "deviation visible in that print",
    "imports are served by ly_ctx_set_module_imp_clb (search directories disabled); the eight internal modules are represented by their shape only",
    "Quiescent (Props/C09.lean): the theorem speaks about contexts between two calls outside an explicit-compile batch",
]
TRUSTED = ["tools/checks/ctxcomp.py: YANG renderer and descriptor (one DSL value feeds both sides)"]
HARNESS = "api_ctx"

PRED = {}          # request line -> model reply tokens (for classify() of harness crashes)


def classify(component, what, case):
    k = case.get("kind")
    if case.get("crash"):
        # a sanitizer abort inside libyang: known only when the model sees the cause
        pred = PRED.get(case.get("line"))
        err = case.get("stderr", "")
        if pred is None:
            return None
        if any(cc.model_broken(t) for t in pred) and ("null pointer" in err or "SEGV" in err) and \
                any(f in err for f in ("lys_unres_dep_sets_create_mod_r", "lys_has_compiled_import_r", "lys_has_dep_mods", "lys_has_compiled",
                                       "lys_has_recompiled", "lys_precompile", "lysp_", "lys_compile")):
            return "F134"
        touch = False
        try:
            touch = b"\nT 1\n" in bytes.fromhex(case.get("line").split()[3])
        except Exception:
            pass
        if touch and "heap-use-after-free" in err and any("|d=" in t and "s" in t.split("|d=")[1].split("|")[0] for t in pred):
            return "F24"
        # the snapshot walks the compiled tree of every implemented module and reads lysc_node.module->name
        if "heap-use-after-free" in err and "collect_foreign" in err and any(cc.stale_compiled(t) for t in pred):
            return "F380"
        return None
    if not case.get("model_agrees"):
        return None
    if k == "features-changed":
        return "F4"
    if k == "data-stale":
        return "F24"
    if k == "latest-lost":
        return "F130"
    if k == "batch-dropped":
        return "F131"
    if k == "later-differs":
        return {"features": "F4", "imported-rev": "F132", "latest": "F130", "batch": "F131", "debris": "F134"}.get(case.get("leftover"))
    if k == "debris":
        return "F134"
    if k == "compiled-changed" and case.get("was_uncompiled"):
        return "F137"
    return None


# ---- case construction -------------------------------------------------------------------------------

def base_sets():
    """hand-made sets in which every statement kind of the property occurs"""
    a = Mod("maa", None, feats=[Feat("f1"), Feat("f2", "f1")], grouping=True, typedef=True, identity=True, when=True, must=True, default=True)
    b = Mod("mbb", None, imports=[("maa", None)], augments=["maa"], deviations=[("maa", 1)], lrefs=["maa"], uses_td=["maa"], uses_grp=["maa"],
            idbase="maa", feats=[Feat("f1")], subs=[Sub("mbbsub", [Feat("s1", "f1")])], when=True, default=True)
    b.subs[0].idimp = ("maa", None)
    c = Mod("mcc", "2020-02-02", imports=[("maa", None), ("mbb", None)], augments=["mbb"], lrefs=["mbb", "maa"], typedef=True, must=True)
    d = Mod("mdd", None, data=False, typedef=True, grouping=True, identity=True)
    e = Mod("mee", "2019-01-01", imports=[("mdd", None)], uses_td=["mdd"], idbase="mdd", feats=[Feat("f1"), Feat("f2"), Feat("f3", "f2")])
    return [[a, b], [a, b, c], [d, e], [a]]


def systematic(cx):
    """every applicable failure-inducing edit of every module of the base sets x histories
    (other modules preloaded or not, explicit compile or not, features on or off, data alive or not)"""
    out = []
    for mods in base_sets():
        byname = {m.name: m for m in mods}
        for m in mods:
            for (kind, tgt) in cc.applicable_edits(m, mods) + [("ns-clash", None)]:
                for (pre, explicit, feats, variant) in itertools.product((0, 1, 2), (0, 1), (0, 1), (0, 1)):
                    if cx.tier != "thorough" and (pre + explicit + feats + variant + len(out)) % 3:
                        continue        # quick: a third of the grid, rotating with the position
                    h = History(cc.EXPLICIT if explicit else 0)
                    for x in mods: h.add(x)
                    others = [x for x in mods if x is not m]
                    good = Mod("mgood", None, imports=[(mods[0].name, None)], augments=[mods[0].name] if mods[0].data else [], feats=[Feat("g1")])
                    h.add(good)
                    if pre >= 1:
                        for x in others:
                            fa = (["*"] if feats else None)
                            h.parse(x, fa)
                    if pre == 2 and m.key() not in [x.key() for x in others]:
                        pass
                    if explicit and pre:
                        h.compile()
                    dm = [x for x in others if x.data]
                    if pre and dm and not explicit:
                        h.data(dm[0].name)
                    clash = others[0].ns if others else "urn:yang:ietf-datastores"
                    bad = cc.apply_edit(m, kind, tgt, clash)
                    if variant:
                        bad.rev = "2022-09-09"
                        for sub in bad.subs: sub.name += "y"
                    h.add(bad)
                    h.parse(bad, (["*"] if feats and bad.feats and kind != "feature-iff" else None))
                    if explicit:
                        h.compile()
                    if not variant:
                        h.add(m)            # the edit is taken back
                    h.parse(good, None)
                    if explicit:
                        h.compile()
                    h.meta = {"kinds": ["systematic:" + kind], "set": [x.key() for x in mods]}
                    out.append(h)
    return out


def feature_histories(cx):
    """every features argument (NULL, none, all, every subset incl. dependency-violating ones, an unknown name) on a module
    that is new / imported only / implemented, through lys_parse, ly_ctx_load_module and lys_set_implemented"""
    out = []
    a = Mod("maa", None, feats=[Feat("f1"), Feat("f2", "f1"), Feat("f3")], subs=[Sub("maasub", [Feat("s1", "f2")])])
    top = Mod("mtop", None, imports=[("maa", None)])
    names = ["f1", "f2", "f3", "s1"]
    args = [None, [], ["*"], ["nosuch"], ["f1", "nosuch"]]
    for r in range(1, 5):
        for c in itertools.combinations(names, r):
            args.append(list(c))
    for state, explicit in itertools.product(("new", "imported", "implemented", "implemented-f1"), (0, 1)):
        for via in ("P", "L", "I"):
            for fa in args:
                if via == "I" and state == "new":
                    continue
                h = History(cc.EXPLICIT if explicit else 0)
                h.add(a); h.add(top)
                if state == "imported": h.parse(top)
                if state == "implemented": h.parse(a)
                if state == "implemented-f1": h.parse(a, ["f1"])
                if explicit and state != "new": h.compile()
                if state.startswith("implemented") and not explicit: h.data("maa")
                if via == "P": h.parse(a, fa)
                elif via == "L": h.load("maa", None, fa)
                else: h.impl("maa", None, fa)
                if explicit: h.compile()
                h.parse(top, None)
                if explicit: h.compile()
                h.meta = {"kinds": ["features:%s:%s" % (state, via)]}
                out.append(h)
    return out


# ---- laws on the implementation -------------------------------------------------------------------------

def snaps(tokens):
    return [Snap(t) for t in tokens]


def explicit_at(h, call_idx):
    """is LY_CTX_EXPLICIT_COMPILE set when call #call_idx starts?"""
    ex = bool(h.flags & cc.EXPLICIT)
    for (k, a) in h.calls()[:call_idx]:
        if k == "O" and int(a[1]) & cc.EXPLICIT:
            ex = a[0] == "+"
    return ex


def pending_at(h, call_idx, si):
    """is there a batch of calls not yet committed by ly_ctx_compile() when call #call_idx starts?  (calls made while
    LY_CTX_EXPLICIT_COMPILE was set; the batch survives ly_ctx_unset_options)"""
    ex = bool(h.flags & cc.EXPLICIT)
    pend = False
    for (k, a), s in list(zip(h.calls(), si))[:call_idx]:
        if k == "O":
            if int(a[1]) & cc.EXPLICIT:
                ex = a[0] == "+"
            if a[0] == "+" and int(a[1]) & cc.PRIV_PARSED:
                pend = False
        elif k == "C":
            pend = False
        elif k in ("P", "L", "I"):
            if s.rc == 99:
                pass                       # no such module: nothing was called
            elif s.rc != 0:
                pend = False
            elif ex:
                pend = True
            else:
                pend = False
    return pend or ex


def laws(cx, h, line, impl, model):
    """impl / model: reply tokens (model already stripped of its private fields, impl of text hashes only for the comparison)"""
    calls = h.calls()
    si = snaps(impl)
    agree = [cc.strip_fnv(a) == cc.strip_fnv(b) for a, b in zip(impl, model)] + [False] * len(impl)
    prev = None
    first_failed = None
    for j, (call, s) in enumerate(zip(calls, si)):
        if s.kind == "D":
            continue
        if prev is not None and s.rc != 0 and s.rc != 99:
            cx.count(None, False, "law:failed-call")
            if first_failed is None:
                first_failed = j
            case = {"line": line, "call": j, "step": [call[0]] + call[1], "before": prev.raw, "after": s.raw, "model_agrees": agree[j] and agree[j - 1],
                    "history": h.describe()}
            # modules / revisions / implemented
            if [(m["key"], m["impl"]) for m in s.mods] != [(m["key"], m["impl"]) for m in prev.mods]:
                gone = [m["key"] for m in prev.mods if m["key"] not in [x["key"] for x in s.mods]]
                kept = [m for m in prev.mods if m["key"] not in gone]
                unimpl = [m["key"] for m, x in zip(kept, s.mods) if m["impl"] and not x["impl"]]
                only_less = [x["key"] for x in s.mods] == [m["key"] for m in kept] and all(m["impl"] or not x["impl"] for m, x in zip(kept, s.mods))
                if (gone or unimpl) and only_less and pending_at(h, j, si):
                    cx.fail("ctx", "failed call in an explicit-compile batch removed modules added by earlier successful calls", dict(case, kind="batch-dropped", gone=gone))
                else:
                    cx.fail("ctx", "module list / implemented flags differ after a failed call", dict(case, kind="modules-changed"))
            else:
                # feature values
                fd = [m["key"] for m, p in zip(s.mods, prev.mods) if m["feats"] != p["feats"]]
                if fd:
                    target = (call[1][0], call[1][1]) if call[0] in ("P", "L", "I") else None
                    one = len(fd) == 1 and target and fd[0].split("@")[0] == target[0] and call[1][2] != "~"
                    cx.fail("ctx", "feature values differ after a failed call", dict(case, kind="features-changed" if one else "features-changed-elsewhere", modules=fd))
                elif s.hash != prev.hash:
                    cx.fail("ctx", "modules hash differs after a failed call", dict(case, kind="hash-changed"))
                # compiled schema
                cd = [m["key"] for m, p in zip(s.mods, prev.mods) if m["fnv"] != p["fnv"]]
                if cd and not fd:
                    # implemented but never compiled by the successful call that implemented it (F137): the failed call's recompilation does it
                    unc = all(p["impl"] and p["fnv"] == "-" for m, p in zip(s.mods, prev.mods) if m["fnv"] != p["fnv"]) and not pending_at(h, j, si)
                    cx.fail("ctx", "compiled schema differs after a failed call", dict(case, kind="compiled-changed", modules=cd, was_uncompiled=unc))
                # latest revision
                ld = [m["key"] for m, p in zip(s.mods, prev.mods) if (m["latest"] & 1) != (p["latest"] & 1)]
                if ld:
                    cx.fail("ctx", "ly_ctx_get_module_latest() differs after a failed call", dict(case, kind="latest-lost", modules=ld))
            # data created before the call
            for i, (a, b) in enumerate(zip(prev.data, s.data)):
                if a == "u" and b == "s":
                    cx.fail("ctx", "a data tree created before the failed call points to freed schema nodes", dict(case, kind="data-stale", tree=i))
                elif a == "u" and b == "b":
                    cx.fail("ctx", "a data tree created before the failed call no longer prints / validates", dict(case, kind="data-broken", tree=i))
        prev = s
    return first_failed


def leftover_kind(h, k, impl):
    """what the failed call #k left behind, judged from the implementation's own snapshots"""
    si = snaps(impl)
    prev = next((s for s in reversed(si[:k]) if s.kind == "S"), None)
    s = si[k]
    if prev is None:
        return None
    if [(m["key"], m["impl"]) for m in s.mods] != [(m["key"], m["impl"]) for m in prev.mods]:
        return "batch" if pending_at(h, k, si) else None
    if any(m["feats"] != p["feats"] for m, p in zip(s.mods, prev.mods)):
        return "features"
    if any((m["latest"] & 1) != (p["latest"] & 1) for m, p in zip(s.mods, prev.mods)):
        return "latest"
    if any((m["latest"] & 4) != (p["latest"] & 4) for m, p in zip(s.mods, prev.mods)):
        return "imported-rev"
    return None


def run_batch(cx, hs, tag):
    """differential + laws for a list of histories"""
    lines = [h.line("%s%d" % (tag, i)) for i, h in enumerate(hs)]
    rm = cx.run_model(lines)
    for l in lines:
        r = rm.get(l.split()[0], ["err", "NoReply"])
        PRED[l] = r[1:] if r[0] == "ok" else []
    ri = cx.run_impl(HARNESS, lines, component="ctx")
    later = []
    for h, l in zip(hs, lines):
        i = l.split()[0]
        a, b = ri.get(i, ["err", "NoReply"]), rm.get(i, ["err", "NoReply"])
        kinds = "+".join(sorted(set(h.meta.get("kinds", ["?"]))))
        if a[:2] == ["err", "Crash"] or a[:2] == ["err", "Timeout"]:
            cx.count(None, False, "ctx:crash")
            continue
        if a[0] != "ok" or b[0] != "ok":
            cx.count(None, False, "ctx:" + " ".join(a[:2]))
            cx.disagree("ctx", l[:200], a[:3], b[:3])
            continue
        impl, model = a[1:], [cc.strip_x(t) for t in b[1:]]
        for (call, t) in zip(h.calls(), impl):
            s = Snap(t)
            cx.count((call[0], t), True, "ctx:%s:%s" % (call[0], "ok" if s.rc == 0 else "refused"))
        for k in h.meta.get("kinds", []):
            cx.dist["history:" + k.split(":")[0]] += 1
        cm = [cc.strip_fnv(t) for t in model]
        if [cc.strip_fnv(t) for t in impl] != cm:
            j = next((n for n, (x, y) in enumerate(zip([cc.strip_fnv(t) for t in impl], cm)) if x != y), min(len(impl), len(model)))
            cx.disagree("ctx", {"history": h.describe(), "call": j, "request": l[:120] + "..."},
                        impl[j] if j < len(impl) else None, model[j] if j < len(model) else None)
        ff = laws(cx, h, l, impl, model)
        if any(cc.model_broken(t) for t in b[1:]) and not h.meta.get("debris_reported"):
            cx.fail("ctx", "a successful call left a half-parsed module in the context", {"kind": "debris", "line": l, "model_agrees": [cc.strip_fnv(t) for t in impl] == [cc.strip_fnv(t) for t in model],
                                                                                          "history": h.describe()})
        if ff is not None:
            later.append((h, l, ff, impl, model))
    # "a later load of a correct module behaves as if the failed attempt never happened"
    rng = cx.sub_rng("later" + tag)
    pick = [x for x in later if x[2] < len(x[0].calls()) - 1 and (cx.tier == "thorough" or tag == "w" or rng.random() < 0.5)]
    if pick:
        l2 = [h.without_call(k).line("%sL%d" % (tag, n)) for n, (h, l, k, impl, model) in enumerate(pick)]
        r2m = cx.run_model(l2)
        for l in l2:
            r = r2m.get(l.split()[0], ["err", "NoReply"])
            PRED[l] = r[1:] if r[0] == "ok" else []
        r2i = cx.run_impl(HARNESS, l2, component="ctx")
        for (h, l, k, impl, model), lx in zip(pick, l2):
            i = lx.split()[0]
            a, b = r2i.get(i, ["err", "NoReply"]), r2m.get(i, ["err", "NoReply"])
            if a[0] != "ok" or b[0] != "ok":
                continue
            cx.count(None, False, "law:later-load")
            fin, fin0 = Snap(impl[-1]), Snap(a[-1])
            if fin.kind != "S" or fin0.kind != "S":
                continue
            mfin, mfin0 = Snap(model[-1]), Snap(cc.strip_x(b[-1]))
            if (fin.obs(), fin.rc) != (fin0.obs(), fin0.rc):
                magree = (mfin.obs(), mfin.rc) != (mfin0.obs(), mfin0.rc) and cc.strip_fnv(impl[-1]) == cc.strip_fnv(model[-1]) and \
                    cc.strip_fnv(a[-1]) == cc.strip_fnv(cc.strip_x(b[-1]))
                cx.fail("ctx", "the history ends differently than the same history without the failed call",
                        {"kind": "later-differs", "leftover": leftover_kind(h, k, impl), "model_agrees": magree, "line": l, "failed_call": k,
                         "with": impl[-1], "without": a[-1], "history": h.describe()})


def run(cx):
    cx.rule("ctx: one case = (API call, observable context after it) reached in a generated history; non-trivial = distinct (call kind, resulting "
            "snapshot); histories = witnesses of the listed findings + every failure-inducing edit of every statement of four hand-made module "
            "sets x {preloaded or not} x {explicit compile} x {features} x {edit as new revision} + every features argument on a new / imported / "
            "implemented module through lys_parse / ly_ctx_load_module / lys_set_implemented + random module sets (1-4 modules, imports, "
            "submodules, typedef/grouping/identity, augment/deviation, leafref/when/must/default, if-feature chains, alternative revisions) with "
            "random histories containing one designed failure")
    # 0. corpus: minimised past disagreements (scripts as sent to both sides)
    import os
    from vlib import paths
    from vlib.proto import hexs
    cdir = os.path.join(paths.CORPUS, "ctx")
    cl = []
    for f in sorted(os.listdir(cdir)) if os.path.isdir(cdir) else []:
        if f.endswith(".spec"):
            spec = "".join(l for l in open(os.path.join(cdir, f)).read().splitlines(True) if not l.startswith("#"))
            cl.append("c%d ctx history %s" % (len(cl), hexs(spec)))
    if cl:
        cx.differential("ctx", cl, HARNESS, canon=lambda r: ([r[0]] + [cc.strip_fnv(cc.strip_x(t)) for t in r[1:]]) if r[0] == "ok" else r,
                        kind=lambda l, r: "corpus:" + r[0])
    # 1. witnesses of the known findings (corpus)
    ws = cc.witnesses()
    hs = []
    for name, (fid, h, k) in ws.items():
        h.meta = {"kinds": ["witness:" + name], "debris_reported": False}
        hs.append(h)
    run_batch(cx, hs, "w")
    # 2. systematic grids
    run_batch(cx, systematic(cx), "s")
    fh = feature_histories(cx)
    if cx.tier != "thorough":
        r = cx.sub_rng("feat")
        fh = [h for h in fh if r.random() < 0.35]
    run_batch(cx, fh, "f")
    # 3. random module sets and histories
    rng = cx.sub_rng("random")
    run_batch(cx, [cc.gen_history(rng) for _ in range(cx.n(1800, 40000))], "r")
    # 4. directed: amend targets that are imports only, amended in every order by the failing module
    rng = cx.sub_rng("amend")
    run_batch(cx, [cc.gen_amend_history(rng) for _ in range(cx.n(500, 8000))], "a")
    # 5. directed: a failing module that augments AND deviates two implemented targets (one of them an import only before)
    rng = cx.sub_rng("amend2")
    run_batch(cx, [cc.gen_amend2_history(rng) for _ in range(cx.n(300, 8000))], "b")
    # 6. directed: a newer revision refused between the latest-revision decision and its registration for rollback
    rng = cx.sub_rng("latestwin")
    run_batch(cx, [cc.gen_latest_window_history(rng) for _ in range(cx.n(180, 6000))], "l")
    cx.sample(hs[0].spec()[:400])
    cx.exhaustive = False


def replay(cx, payload):
    f = payload.get("failure", {}).get("case", {})
    line = f.get("line")
    if line:
        ri = cx.run_impl(HARNESS, [line], component="ctx")
        rm = cx.run_model([line])
        i = line.split()[0]
        cx.notes.append("impl : " + " ".join(ri.get(i, [])))
        cx.notes.append("model: " + " ".join(rm.get(i, [])))
        if ri.get(i) and rm.get(i) and [cc.strip_fnv(t) for t in ri[i][1:]] != [cc.strip_fnv(cc.strip_x(t)) for t in rm[i][1:]]:
            cx.disagree("ctx", line[:160], ri[i], rm[i])
