"""ipv4-address / ipv4-address-no-zone / ipv4-prefix / ipv6-address / ipv6-address-no-zone / ipv6-prefix (ietf-inet-types): correspondence
of lean/LyModel/Val/Inet.lean with src/plugins_types/ipv{4,6}_{address,address_no_zone,prefix}.c (component `val`), and the laws of the
value on the implementation's replies.

`run_inet(run)` is called from valcomp.run_val with the `Run` object of valcomp (run.diff(cases) = same lines to the harness and to the
model, replies must be equal; run.get(case); run.cx = the check context).

Pools, per typedef:
  zero-runs  IPv6: every one of the 256 zero / non-zero patterns of the eight groups, exploded, in the RFC 5952 form, and with `::` put at
             every run (incl. a run of ONE group, leading / trailing runs, all-zero, the leftmost of equal runs)
  groups     1..4 digit groups with leading zeros and upper case, 5 digits, 7 / 8 / 9 groups, `::` for zero groups (8 groups + `::`),
             two `::`, `:::`, a single colon at either end
  quad       trailing dotted quad in every legal and illegal position, IPv4-mapped / compatible / `::1.2.3.4` vs `::1`, `::ffff:0:1`,
             `::0.0.3.4`, `::0.1.0.0`, leading-zero octets in the quad
  octets     IPv4: octets 0 / 255 / 256 / 00 / 01 / 1e1 / empty, 3 and 5 octets, dots at the ends, `..`
  blanks     space, tab, LF at the ends and inside
  zones      `%eth0`, `%`, `%%`, `%e%f`, `/ - _ .` in the zone, upper case, digits, non-ASCII letter and digit, zone on the no-zone types
  lengths    prefix lengths 0..32 / 0..128 and beyond, `+8`, `08`, `008`, empty, no slash, two slashes; the all-ones address with every
             length (host bits on every byte boundary)
  bytes      NUL at every position of a valid value, multi-byte and malformed UTF-8
  damage     deletion / insertion / replacement of one byte at every position of a few valid values
  random     random 32 / 128-bit values in several spellings
  hints      accepted and refused values with every hint set of the value API
  lyb        LYB inputs of every size 0..size+3, zone bytes of every class, prefix bytes around the limit, host bits set
  cmp        spellings of one value, neighbours in address order, no zone / zones a, b, ab, prefixes that differ in the length or in the
             host bits only, random pairs

Laws on the implementation (oracle: python `ipaddress` for the address part, the RFC 6991 patterns in python `re`, RFC 5952 section 4 / 5
written from the integer value — shares nothing with libyang):
  inet_accept_iff        stored <=> (plug-ins that check them) the patterns of the typedef match and the address part is an address
  inet_canonical         canonical = the RFC 5952 text of the (masked) address + %zone / + /len without leading zeros; IPv4: the text
  inet_nul_refused       a value with an embedded NUL byte is not accepted
  prefix_canonical_masked  the canonical prefix has no host bit; prefixes that differ in host bits only are equal
  inet_lyb_form          LYB = address bytes (network order) + zone bytes / + the length byte
  inet_unlyb             a LYB value is stored <=> the size / zone / length rules hold; canonical form as above
  inet_lyb_zone          a zone accepted in the text form is accepted in the LYB form
  + the generic laws of valcomp.laws_value
"""
import ipaddress, re, socket, unicodedata
from vlib.proto import hexs, unhex

MOD = "t:ietf-inet-types:"
TYPES = ["ipv4-address", "ipv4-address-no-zone", "ipv4-prefix", "ipv6-address", "ipv6-address-no-zone", "ipv6-prefix"]
HINTS = (0x03F3, 0x03FF, 0x0011, 0x0002, 0x0020, 0, 1, 2, 4, 8, 16, 32, 64, 20)
OCT = r"([0-9]|[1-9][0-9]|1[0-9][0-9]|2[0-4][0-9]|25[0-5])"
P_V4 = r"(%s\.){3}%s" % (OCT, OCT)
P_V6A = (r"((:|[0-9a-fA-F]{0,4}):)([0-9a-fA-F]{0,4}:){0,5}((([0-9a-fA-F]{0,4}:)?(:|[0-9a-fA-F]{0,4}))|"
         r"(((25[0-5]|2[0-4][0-9]|[01]?[0-9]?[0-9])\.){3}(25[0-5]|2[0-4][0-9]|[01]?[0-9]?[0-9])))")
P_V6B = r"(([^:]+:){6}(([^:]+:[^:]+)|([^\n\r]*\.[^\n\r]*)))|((([^:]+:)*[^:]+)?::(([^:]+:)*[^:]+)?)"
RE_V4 = re.compile(P_V4)
RE_V4P = re.compile(P_V4 + r"/(([0-9])|([1-2][0-9])|(3[0-2]))")
RE_V6A = re.compile(P_V6A)
RE_V6B = re.compile(P_V6B)
RE_V6PA = re.compile(P_V6A + r"(/(([0-9])|([0-9]{2})|(1[0-1][0-9])|(12[0-8])))")
RE_V6PB = re.compile("(" + P_V6B + r")(/[^\n\r]+)")
UTF = ["é".encode(), "٣".encode(), "€".encode(), b"\x80", b"\xc3", b"\xc0\x80", b"\xed\xa0\x80", b"\xff"]
BLANKS = [b" ", b"\t", b"\n"]


def is_v6(ty):
    return ty.startswith("ipv6")


def size_of(ty):
    return 16 if is_v6(ty) else 4


def words(n):
    return [(n >> (16 * (7 - i))) & 0xffff for i in range(8)]


def best_run(ws):
    best, i = (-1, 0), 0
    while i < 8:
        if ws[i] == 0:
            j = i
            while j < 8 and ws[j] == 0:
                j += 1
            if j - i > best[1]:
                best = (i, j - i)
            i = j
        else:
            i += 1
    return best if best[1] >= 2 else (-1, 0)


def text6(n):
    """RFC 5952 section 4 (lower case, no leading zeros, the longest run of at least two zero groups compressed, the first one of equal
    runs) and section 5 as inet_ntop applies it: a dotted quad when the first 96 bits are zero and group 6 is not, and for ::ffff:0:0/96"""
    ws = words(n)
    b, l = best_run(ws)
    quad = "%d.%d.%d.%d" % (ws[6] >> 8, ws[6] & 255, ws[7] >> 8, ws[7] & 255)
    if b == 0 and l == 6:
        return "::" + quad
    if b == 0 and l == 5 and ws[5] == 0xffff:
        return "::ffff:" + quad
    if b < 0:
        return ":".join("%x" % w for w in ws)
    return ":".join("%x" % w for w in ws[:b]) + "::" + ":".join("%x" % w for w in ws[b + l:])


def text4(n):
    return "%d.%d.%d.%d" % (n >> 24, (n >> 16) & 255, (n >> 8) & 255, n & 255)


def addr_of(ty, a):
    """the address part as an integer (python ipaddress; ASCII only), or None"""
    if not a or any(c >= 0x80 or c == 0 for c in a) or b"%" in a or b"/" in a:
        return None
    try:
        return int((ipaddress.IPv6Address if is_v6(ty) else ipaddress.IPv4Address)(a.decode("ascii")))
    except ValueError:
        return None


def zone_ok(z):
    return len(z) > 0 and all(unicodedata.category(c)[0] in "NL" for c in z)


def patterns_ok(ty, x):
    """the patterns of the typedef chain on the whole value (python re on the decoded text; None = not UTF-8)"""
    try:
        s = x.decode("utf-8")
    except UnicodeDecodeError:
        return None
    if ty.endswith("address"):
        a, pc, z = s.partition("%")
        if pc and not zone_ok(z):
            return False
        if not is_v6(ty):
            return RE_V4.fullmatch(a) is not None
        return RE_V6A.fullmatch(a) is not None and RE_V6B.fullmatch(a) is not None
    if ty == "ipv4-prefix":
        return RE_V4P.fullmatch(s) is not None
    if ty == "ipv6-prefix":
        return RE_V6PA.fullmatch(s) is not None and RE_V6PB.fullmatch(s) is not None
    return True


def mask(n, bits, plen):
    return n & (((1 << plen) - 1) << (bits - plen)) if plen else 0


def oracle(ty, x):
    """-> (verdict, canonical bytes or None, (address int, zone bytes or None, length or None), note)"""
    bits = 128 if is_v6(ty) else 32
    txt = text6 if is_v6(ty) else text4
    if ty.endswith("no-zone"):
        a = x.split(b"\0")[0]
        n = addr_of(ty, a)
        if n is None:
            return False, None, None, ""
        return True, (a if not is_v6(ty) else txt(n).encode()), (n, None, None), ("nul" if b"\0" in x else "")
    p = patterns_ok(ty, x)
    if not p:
        return False, None, None, ("utf8" if p is None else "pattern")
    if ty.endswith("prefix"):
        a, _, l = x.partition(b"/")
        n, plen = addr_of(ty, a), int(l)
        if n is None:
            return False, None, None, "pton"
        m = mask(n, bits, plen)
        return True, ("%s/%d" % (txt(m), plen)).encode(), (m, None, plen), ""
    a, pc, z = x.partition(b"%")
    n = addr_of(ty, a)
    if n is None:
        return False, None, None, "pton"
    return True, (x if not is_v6(ty) else txt(n).encode() + pc + z), (n, z if pc else None, None), ""


def lyb_of(ty, val):
    n, z, plen = val
    b = n.to_bytes(size_of(ty), "big")
    return b + (bytes([plen]) if plen is not None else (z or b""))


# ------------------------------------------------------------------------------------------------ pools
def spell6(rng, n, how):
    ws = words(n)
    if how == "exploded":
        return ":".join("%04x" % w for w in ws)
    if how == "plain":
        return ":".join("%x" % w for w in ws)
    if how == "upper":
        return ":".join("%X" % w for w in ws)
    if how == "padded":
        return ":".join(("%x" % w).rjust(rng.randrange(1, 5), "0") for w in ws)
    if how == "quad":
        return ":".join("%x" % w for w in ws[:6]) + ":%d.%d.%d.%d" % (ws[6] >> 8, ws[6] & 255, ws[7] >> 8, ws[7] & 255)
    return text6(n)


def runs_of(ws):
    out, i = [], 0
    while i < 8:
        if ws[i] == 0:
            j = i
            while j < 8 and ws[j] == 0:
                j += 1
            out.append((i, j - i))
            i = j
        else:
            i += 1
    return out


def zero_run_pool(rng, n_patterns):
    """for a zero pattern of the eight groups: plain, RFC 5952, and `::` at every run and every sub-run that starts or ends the run"""
    out = []
    pats = list(range(256))
    if n_patterns < 256:
        must = [0, 255, 0b10000001, 0b01111110, 0b10011001, 0b11100111, 0b10110111, 0b00000001, 0b10000000, 0b01000000, 0b00000010, 0b10101010, 0b01010101,
                0b11001100, 0b00110011, 0b10001000, 0b00010001, 0b11111110, 0b01111111, 0b00000011, 0b00000111, 0b11000000]
        rest = [p for p in pats if p not in must]
        rng.shuffle(rest)
        pats = must + rest[:max(0, n_patterns - len(must))]
    for p in pats:
        ws = [(rng.choice([1, 0xa, 0xff, 0xabc, 0xffff, 0x1000, 0x8000]) if (p >> (7 - i)) & 1 else 0) for i in range(8)]
        n = 0
        for w in ws:
            n = (n << 16) | w
        out += [spell6(rng, n, "plain"), text6(n)]
        for b, l in runs_of(ws):
            for (bb, ll) in {(b, l), (b, 1), (b + l - 1, 1), (b, max(1, l - 1))}:
                left = ":".join("%x" % w for w in ws[:bb])
                right = ":".join("%x" % w for w in ws[bb + ll:])
                out.append(left + "::" + right)
    return [s.encode() for s in out]


def v6_groups_pool():
    g = ["1:2:3:4:5:6:7:8", "1:2:3:4:5:6:7", "1:2:3:4:5:6:7:8:9", "01:002:0003:4:5:6:7:8", "00001:2:3:4:5:6:7:8", "12345::", "::12345", "::fffff", "ABCD:EF01::", "abcd:EF01::aBcD",
         "1:2:3:4::5:6:7:8", "1:2:3:4:5:6:7::8", "::1:2:3:4:5:6:7:8", "1:2:3:4:5:6:7:8::", "1:2:3:4:5:6:7::", "::2:3:4:5:6:7:8", "1::8", "1::2::3", "::1::", ":::", "::::", ":", "::", "",
         ":1", "1:", ":1:2:3:4:5:6:7:8", "1:2:3:4:5:6:7:8:", ":1::2", "1::2:", "::1:", ":::1", "1:::2", "g::", "::g", "0x1::", "1:2:3:4:5:6:7:", "::0", "0::", "0::0", "0:0:0:0:0:0:0:0",
         "0000:0000:0000:0000:0000:0000:0000:0000", "ffff:ffff:ffff:ffff:ffff:ffff:ffff:ffff", "FFFF:FFFF:FFFF:FFFF:FFFF:FFFF:FFFF:FFFF", "1:0:0:2:0:0:0:3", "1:0:0:0:2:0:0:3",
         "1:0:0:2:0:0:3:4", "0:0:1:0:0:1:0:0", "0:1:0:1:0:1:0:1", "1:0:1:0:1:0:1:0", "1:2:3:4:5:6:7:0", "0:2:3:4:5:6:7:8", "1:2:3:0:5:6:7:8", "-1::", "1::-1", "1: :2", "1::2 ", "::1\n"]
    return [s.encode() for s in g]


def v6_quad_pool():
    q = ["::1.2.3.4", "::ffff:1.2.3.4", "::FFFF:1.2.3.4", "::ffff:0:1", "::ffff:0.0.0.1", "::1", "::0.0.0.1", "::0.0.3.4", "::0.1.0.0", "::1.0.0.0", "::0.0.0.0", "::255.255.255.255",
         "0:0:0:0:0:0:1.2.3.4", "0:0:0:0:0:ffff:1.2.3.4", "1:2:3:4:5:6:1.2.3.4", "1:2:3:4:5:6:7:1.2.3.4", "1:2:3:4:5:1.2.3.4", "1:2:3:4:5::1.2.3.4", "1:2:3:4:5:6::1.2.3.4",
         "1.2.3.4", "1.2.3.4::", "1.2.3.4::1", "::1.2.3.4:5", "1::1.2.3.4:5", "::1.2.3", "::1.2.3.4.5", "::1.2.3.256", "::01.2.3.4", "::1.02.3.4", "::1.2.3.04", "::001.2.3.4",
         "::ffff:01.2.3.4", "::ffff:1.2.3.004", "::1.2.3.4.", "::.1.2.3.4", "::1..2.3", "::a.2.3.4", "::1.2.3.a", "::ffff:1.2.3.4:", "::fffe:1.2.3.4", "::1:1.2.3.4", "1::1.2.3.4",
         "::ffff:0:0", "::ffff:255.255.255.255", "0:0:0:0:0:ffff:0:0", "::fffff:1.2.3.4", "::0001.2.3.4", "::12345.2.3.4", "64:ff9b::1.2.3.4", "::1.2.3.4%eth0", "::ffff:1.2.3.4/96",
         "0:0:0:0:0:0:0.0.0.1", "0:0:0:0:0:0:0.1.0.0", "0:0:0:0:0:1:1.2.3.4"]
    return [s.encode() for s in q]


def v4_pool():
    o = ["1.2.3.4", "0.0.0.0", "255.255.255.255", "256.1.1.1", "1.1.1.256", "1.2.3.00", "00.2.3.4", "01.2.3.4", "1.02.3.4", "1.2.3.04", "001.2.3.4", "1e1.2.3.4", "1.2.3.1e1", "1.2.3", "1.2.3.4.5",
         "1.2.3.", ".1.2.3.4", "1.2.3.4.", "1..2.3", "1...4", "", ".", "...", "1.2.3.-4", "+1.2.3.4", "1.2.3.4 ", " 1.2.3.4", "1.2 .3.4", "1.2.3.4\n", "\t1.2.3.4", "0x1.2.3.4", "1.2.3.0x4", "1.2.3.４",
         "10.0.0.1", "192.168.255.1", "128.0.0.1", "127.0.0.1", "9.99.199.249", "250.255.100.10", "1.2.3.4/24", "1.2.3.4%eth0", "1234.1.1.1", "1.1.1.1111", "0.0.0.00", "300.1.1.1", "1.2.3.999",
         "::1", "1:2:3:4:5:6:7:8", "a.b.c.d", "1,2,3,4", "١.2.3.4"]
    return [s.encode() for s in o]


def zones_pool(valid):
    z = ["%eth0", "%", "%%", "%e%f", "%eth0%", "%eth/0", "%eth-0", "%eth_0", "%eth.0", "%ETH0", "%Eth0", "%0", "%12", "%a", "%b", "%ab", "%é", "%٣", "%eth0é", "% ", "%eth 0", "%\n", "%€",
         "%á", "%ǅ", "%Ⅷ", "%²"]
    out = []
    for v in valid:
        out += [v + s.encode() for s in z] + [b"%eth0" + v, v + b"%\x80", v + b"%a\0b"]
    return out


def lengths_pool(rng, ty, quick):
    bits = 128 if is_v6(ty) else 32
    ones = b"255.255.255.255" if bits == 32 else b"ffff:ffff:ffff:ffff:ffff:ffff:ffff:ffff"
    other = [b"1.2.3.4", b"10.1.2.3", b"128.0.0.1", b"0.0.0.0"] if bits == 32 else [b"2001:db8:1:ff02:a0b:c0d:e0f:1", b"::1", b"::ffff:1.2.3.4", b"fe80::1", b"::", b"1:2:3:4:5:6:7:8",
                                                                                   b"8000::", b"::1.2.3.4", b"0:0:0:0:0:ffff:ffff:ffff"]
    out = []
    lens = list(range(0, bits + 1))
    for l in lens:
        out.append(ones + b"/%d" % l)
    for a in other:
        ls = lens if not quick else sorted(set([0, 1, 7, 8, 9, 15, 16, 17, 24, 31, 32, bits - 1, bits] + [rng.randrange(0, bits + 1) for _ in range(6)] +
                                               ([33, 63, 64, 65, 95, 96, 97, 112, 120, 127] if bits == 128 else [])))
        for l in ls:
            out.append(a + b"/%d" % l)
    a = other[0]
    for s in ["/", "", "//", "/8/", "/8/8", "/+8", "/-8", "/08", "/008", "/00", "/000", "/ 8", "/8 ", "/8\n", "/8a", "/a", "/0x8", "/%d" % (bits + 1), "/%d" % (bits + 2), "/200", "/255", "/256",
              "/999", "/1000", "/33", "/99", "/100", "/119", "/120", "/129", "/130", "/1e1", "/٣", "%eth0/8", "/8%eth0"]:
        out += [a + s.encode(), ones + s.encode()]
    out += [b"/8", b"/", b"1.2.3.4/8" if bits == 128 else b"::1/8", b" " + a + b"/8", a.upper() + b"/8"]
    return out


def bytes_pool(valid):
    out = []
    for v in valid[:2]:
        for p in range(len(v) + 1):
            out.append(v[:p] + b"\0" + v[p:])
        out += [v + b"\0junk", v + b"\0\xff", b"\0" + v, b"\0"]
        for u in UTF:
            out += [u, v + u, u + v, v[:1] + u + v[1:]]
    return out


def damage_pool(rng, valid, per):
    out = []
    alphabet = b"019afAFgG:.%/ \x00\xff\n-+"
    for v in valid[:per]:
        for p in range(len(v) + 1):
            out.append(v[:p] + v[p + 1:])
            b = bytes([rng.choice(alphabet)])
            out.append(v[:p] + b + v[p:])
            out.append(v[:p] + b + v[p + 1:])
    return out


def random_pool(rng, ty, n):
    out = []
    for _ in range(n):
        if is_v6(ty):
            k = rng.getrandbits(128)
            if rng.random() < 0.6:      # zero some groups
                for i in range(8):
                    if rng.random() < 0.45:
                        k &= ~(0xffff << (16 * i))
            s = spell6(rng, k, rng.choice(["exploded", "plain", "upper", "padded", "quad", "canon"]))
        else:
            s = text4(rng.choice([rng.getrandbits(32), rng.choice([0, 255, 1, 10, 100, 199, 200, 249, 250]) * 0x01010101]))
        if ty.endswith("prefix"):
            s += "/%d" % rng.randrange(0, (128 if is_v6(ty) else 32) + 1)
        elif ty.endswith("address") and rng.random() < 0.3:
            s += "%" + rng.choice(["eth0", "1", "lo", "Wlan0", "a", "b"])
        out.append(s.encode())
    return out


def pool_of(cx, rng, ty):
    quick = cx.tier == "quick"
    pools = {}
    if is_v6(ty):
        base = [b"2001:db8::1", b"fe80::1", b"::ffff:1.2.3.4", b"1:2:3:4:5:6:7:8"]
        pools["zero-runs"] = zero_run_pool(rng, cx.n(40, 256))
        pools["groups"] = v6_groups_pool()
        pools["quad"] = v6_quad_pool()
        pools["octets"] = v4_pool()[:12]
    else:
        base = [b"1.2.3.4", b"192.168.255.1"]
        pools["octets"] = v4_pool()
        pools["groups"] = [b"::1", b"::ffff:1.2.3.4", b"1:2:3:4:5:6:7:8"]
    if ty.endswith("prefix"):
        pools["lengths"] = lengths_pool(rng, ty, quick)
        for k in ("zero-runs", "groups", "quad", "octets"):
            if k in pools:
                sel = pools[k] if not quick else pools[k][::3]
                pools[k] = [v + b"/%d" % rng.choice([0, 1, 16, 24, 32, 64, 96, 127, 128][:5 if not is_v6(ty) else 9]) for v in sel] + pools[k][:6]
        basev = [b + b"/24" for b in base]
    else:
        pools["lengths"] = [base[0] + b"/8", base[0] + b"/"]
        basev = base
    pools["zones"] = zones_pool(base[:2] if not ty.endswith("prefix") else basev[:1])
    pools["blanks"] = [x for v in basev[:2] for b in BLANKS for x in (b + v, v + b, v[:3] + b + v[3:])] + BLANKS
    pools["bytes"] = bytes_pool(basev)
    pools["damage"] = damage_pool(rng, basev, cx.n(1, 4))
    pools["random"] = random_pool(rng, ty, cx.n(30, 1500))
    return {k: list(dict.fromkeys(v)) for k, v in pools.items()}


def lyb_pool(rng, ty, quick):
    size = size_of(ty)
    out = []
    full = size + (1 if ty.endswith("prefix") else 0)
    for n in range(0, full + 4):
        out += [bytes([0xff] * n), bytes(rng.randrange(256) for _ in range(n)), bytes(range(1, n + 1))]
    addr = [bytes([0xff] * size), bytes(range(1, size + 1)), bytes(size), bytes([0] * (size - 4) + [1, 2, 3, 4]), bytes([0] * (size - 6) + [0xff, 0xff, 1, 2, 3, 4])[-size:]]
    if ty.endswith("prefix"):
        maxp = 128 if size == 16 else 32
        for a in addr:
            ls = range(0, 256) if not quick else sorted(set(list(range(0, 34)) + [maxp - 1, maxp, maxp + 1, maxp + 2, 63, 64, 65, 96, 120, 126, 127, 128, 129, 130, 131, 200, 254, 255]))
            for l in (ls if a == addr[0] or not quick else [0, 1, 8, 9, maxp // 2, maxp - 1, maxp, maxp + 1]):
                out.append(a + bytes([l]))
    elif ty.endswith("address"):
        for z in [b"eth0", b"E", b"0", b"aZ09", b"_", b"-", b" ", b"\0", b"\x80", b"\xff", b"/", b"%", b"a\0", b"a_b", b"\xc3\xa9", b"a" * 40, b"eth0\n", b"."]:
            out.append(addr[1] + z)
            out.append(addr[3] + z)
    out += addr
    return list(dict.fromkeys(out))


def oracle_lyb(ty, b):
    """-> (verdict, canonical bytes, error kind expected)"""
    size = size_of(ty)
    bits = size * 8
    txt = text6 if size == 16 else text4
    if ty.endswith("prefix"):
        if len(b) != size + 1:
            return False, None, "LybSize"
        if b[size] > bits:
            return False, None, "LybPrefixLen"
        return True, ("%s/%d" % (txt(mask(int.from_bytes(b[:size], "big"), bits, b[size])), b[size])).encode(), None
    if ty.endswith("no-zone"):
        if len(b) != size:
            return False, None, "LybSize"
        return True, txt(int.from_bytes(b, "big")).encode(), None
    if len(b) < size:
        return False, None, "LybSize"
    z = b[size:]
    if not all((48 <= c <= 57) or (65 <= c <= 90) or (97 <= c <= 122) for c in z):
        return False, None, "LybZone"
    return True, txt(int.from_bytes(b[:size], "big")).encode() + (b"%" + z if z else b""), None


def self_test(cx, rng):
    """the RFC 5952 oracle against inet_ntop of this machine's libc (only to know when the two oracles part)"""
    bad = []
    vals = [0, 1, 0x0102, 0x01020304, 0xffff01020304, 0xffff00000001, 0x10000, 0x1000000, 1 << 127, (1 << 128) - 1]
    for _ in range(400):
        k = rng.getrandbits(128)
        for i in range(8):
            if rng.random() < 0.5:
                k &= ~(0xffff << (16 * i))
        vals.append(k)
    for k in vals:
        try:
            s = socket.inet_ntop(socket.AF_INET6, k.to_bytes(16, "big"))
        except (OSError, ValueError):
            return True
        if s != text6(k):
            bad.append((hex(k), s, text6(k)))
    if bad:
        cx.notes.append("valinet: the RFC 5952 oracle and inet_ntop of this libc differ: %r" % (bad[:3],))
    return not bad


def run_inet(run):
    from checks import valcomp
    cx = run.cx
    rng = cx.sub_rng("valinet")
    quick = cx.tier == "quick"
    probe = "validate %s %s" % (MOD + "ipv6-prefix", hexs(b"2001:DB8::1/64"))
    run.diff([probe])
    if run.get(probe)[:2] == ["err", "Schema"]:
        cx.notes.append("inet: types not available in this tree")
        return
    canon_law = self_test(cx, rng)
    total, n_acc, n_pairs, n_lyb = 0, 0, 0, 0
    accepted, pairs = {}, {}
    lz_examples = []
    for ty in TYPES:
        d = MOD + ty
        size, bits = size_of(ty), size_of(ty) * 8
        pools = pool_of(cx, rng, ty)
        lex = []
        for name, p in pools.items():
            cx.dist["val:inet:%s:pool:%s" % (ty, name)] = len(p)
            lex += p
        lex = list(dict.fromkeys(lex))
        total += len(lex)
        run.diff(["validate %s %s" % (d, hexs(x)) for x in lex])

        # ---- acceptance and canonical form against the oracle
        acc = {}
        for x in lex:
            r = run.get("validate %s %s" % (d, hexs(x)))
            want, can, val, note = oracle(ty, x)
            case = {"type": d, "value_hex": hexs(x), "got": r, "oracle": want, "oracle_canonical": can.decode("utf-8", "replace") if can else None}
            if r[0] == "ok":
                c = unhex(r[1])
                shape = "nul-truncated" if b"\0" in x else ("canonical" if x == c else "other-spelling")
                cx.count(("inet-acc", ty, x), True, "val:inet:%s:accepted:%s" % (ty, shape))
                if b"\0" in x:
                    cx.fail("val", "a value with an embedded NUL byte is accepted: the bytes after the NUL are never looked at", dict(case, law="inet_nul_refused"))
                    continue
                acc[x] = (c, val)
                if not want:
                    cx.fail("val", "a value outside the lexical space of %s is accepted" % ty, dict(case, law="inet_accept_iff"))
                elif canon_law and c != can:
                    cx.fail("val", "the canonical value of a %s is not the RFC 6991 / RFC 5952 form" % ty, dict(case, law="inet_canonical"))
            else:
                cx.count(("inet-rej", ty, x), True, "val:inet:%s:rejected:%s" % (ty, r[1]))
                if want and b"\0" not in x:
                    cx.fail("val", "a value of the lexical space of %s is refused" % ty, dict(case, law="inet_accept_iff"))
                elif note == "pton" and r[1] == "InetPton":
                    # the patterns of the typedef match, inet_pton refuses: a decimal octet with a leading zero (`[01]?[0-9]?[0-9]`) is the one
                    # class where this is RFC-conformant text that libc refuses; anything else is outside RFC 4291 as well
                    a = re.split(rb"[%/]", x)[0]
                    if re.search(rb"(^|[:.])0[0-9]+(\.|$)", a) and b"." in a:
                        cx.count(("inet-lz", ty, x), True, "val:inet:%s:pattern-ok-pton-refused:leading-zero-octet" % ty)
                        if len(lz_examples) < 5:
                            lz_examples.append("%s %r" % (ty, x.decode("latin1")))
                    else:
                        cx.count(("inet-pp", ty, x), True, "val:inet:%s:pattern-ok-pton-refused:not-an-address" % ty)
        n_acc += len(acc)
        cx.dist["val:inet:%s:accepted" % ty] = len(acc)
        cx.dist["val:inet:%s:rejected" % ty] = len(lex) - len(acc)

        # ---- hints, canonical form stored again, store (LYB form), LYB inputs
        cases = []
        keys = sorted(acc)
        some = keys[:: max(1, len(keys) // cx.n(6, 60))] + [b"", b"x", b"1.2.3.4", b"::1"]
        for h in HINTS:
            for x in some:
                cases.append("store %s %d %s" % (d, h, hexs(x)))
        for x, (c, _) in acc.items():
            cases.append("validate %s %s" % (d, hexs(c)))
            cases.append("store %s %d %s" % (d, HINTS[0], hexs(x)))
        lybs = lyb_pool(rng, ty, quick)
        cx.dist["val:inet:%s:pool:lyb" % ty] = len(lybs)
        for b in lybs:
            cases.append("unlyb %s %s" % (d, hexs(b)))
        run.diff(cases)
        n_lyb += len(lybs)
        for b in lybs:
            r = run.get("unlyb %s %s" % (d, hexs(b)))
            want, can, kind = oracle_lyb(ty, b)
            cx.count(("inet-unlyb", ty, b), True, "val:inet:%s:unlyb:%s" % (ty, r[0] if r[0] == "ok" else r[1]))
            case = {"type": d, "lyb_hex": hexs(b), "got": r, "oracle": want, "oracle_canonical": can.decode() if can else None, "law": "inet_unlyb"}
            if (r[0] == "ok") != want or (not want and r[1] != kind):
                cx.fail("val", "a LYB %s value is not stored exactly when its size, zone bytes and prefix length are valid" % ty, case)
            elif want and canon_law and unhex(r[1]) != can:
                cx.fail("val", "the canonical value of a %s stored from LYB is not the RFC 5952 form of the (masked) address" % ty, case)
        bad_zone = set()
        for x, (c, val) in acc.items():
            r = run.get("store %s %d %s" % (d, HINTS[0], hexs(x)))
            case = {"type": d, "value_hex": hexs(x), "store": r}
            if r[0] != "ok" or unhex(r[1]) != c:
                cx.fail("val", "store callback and lyd_value_validate differ", dict(case, law="same_verdict"))
                continue
            if val is not None and unhex(r[2]) != lyb_of(ty, val):
                cx.fail("val", "the LYB form of a %s is not the address in network byte order + zone / prefix length" % ty,
                        dict(case, expected_hex=hexs(lyb_of(ty, val)), law="inet_lyb_form"))
            z = val[1] if val else None
            if z is not None and not oracle_lyb(ty, unhex(r[2]))[0]:
                bad_zone.add(x)
        # zones the text form takes and the LYB form refuses
        zl = ["lybrt %s %s" % (d, hexs(x)) for x in sorted(bad_zone)]
        run.diff(zl)
        for x in sorted(bad_zone):
            r = run.get("lybrt %s %s" % (d, hexs(x)))
            cx.count(("inet-zone", ty, x), True, "val:inet:%s:lybrt-zone:%s" % (ty, r[0] if r[0] == "ok" else r[1]))
            if r[0] != "ok":
                cx.fail("val", "a zone accepted in the text form is refused in the LYB form (value -> LYB -> value fails)",
                        {"type": d, "value_hex": hexs(x), "got": r, "law": "inet_lyb_zone"})

        # ---- cmp / lybrt
        good = {x: v for x, v in acc.items() if x not in bad_zone and v[1] is not None}
        by_v = {}
        for x, (c, val) in good.items():
            by_v.setdefault(val, []).append(x)
        vals = sorted(by_v, key=lambda v: (v[0], v[2] if v[2] is not None else -1, v[1] is not None, v[1] or b""))
        pr = []
        for v in vals[:cx.n(25, 400)]:
            xs = by_v[v][:4]
            pr += [(a, b) for a in xs for b in xs]
        for i in range(len(vals) - 1):
            pr.append((by_v[vals[i]][0], by_v[vals[i + 1]][-1]))
        flat = [x for v in vals for x in by_v[v]]
        # same address: no zone / different zones; prefixes: same address different length, host bits only
        by_addr = {}
        for v in vals:
            by_addr.setdefault(v[0], []).append(v)
        for a, vs in by_addr.items():
            if len(vs) > 1:
                for v1 in vs[:5]:
                    for v2 in vs[:5]:
                        pr.append((by_v[v1][0], by_v[v2][-1]))
        for _ in range(cx.n(120, 4000)):
            pr.append((rng.choice(flat), rng.choice(flat)))
        pr = list(dict.fromkeys(pr))
        sub = list(dict.fromkeys([a for a, _ in pr]))[:cx.n(40, 600)]
        cases = []
        for a, b in pr:
            cases += ["cmp %s %s %s" % (d, hexs(a), hexs(b)), "cmp %s %s %s" % (d, hexs(b), hexs(a))]
        for a in sub:
            cases.append("lybrt %s %s" % (d, hexs(a)))
            cases.append("cmp %s %s %s" % (d, hexs(a), hexs(acc[a][0])))
        rejected = [x for x in lex if x not in acc and b"\0" not in x][:5]
        for x in rejected:
            cases += ["cmp %s %s %s" % (d, hexs(x), hexs(flat[0])), "cmp %s %s %s" % (d, hexs(flat[0]), hexs(x)), "lybrt %s %s" % (d, hexs(x))]
        run.diff(cases)
        n_pairs += len(pr)
        pairs[d] = (sub, pr)
        accepted[d] = list(good)
        for a, b in pr:
            r = run.get("cmp %s %s %s" % (d, hexs(a), hexs(b)))
            if r[0] != "ok":
                continue
            va, vb = good[a][1], good[b][1]
            same = va == vb
            cx.count(("inet-cmp", ty, a, b), True, "val:inet:%s:cmp:%s" % (ty, "equal-different-spelling" if same and a != b else "equal" if same else "ordered"))
            case = {"type": d, "a_hex": hexs(a), "b_hex": hexs(b), "reply": r}
            if (r[1] == "1") != same:
                cx.fail("val", "two %s values are not equal exactly when address, zone and prefix length (after masking) are equal" % ty,
                        dict(case, law="prefix_canonical_masked" if ty.endswith("prefix") else "inet_eq_iff_canon_eq"))
            else:
                # order: address bytes, then (prefix) the length / (zone) no zone first, then strcmp of the zones
                ka = (va[0], va[2] if va[2] is not None else -1, va[1] is not None, va[1] or b"")
                kb = (vb[0], vb[2] if vb[2] is not None else -1, vb[1] is not None, vb[1] or b"")
                want = -1 if ka < kb else (1 if ka > kb else 0)
                if int(r[2]) != want:
                    cx.fail("val", "the sort callback of %s does not order by address, then zone / prefix length" % ty, dict(case, expected=want, law="inet_sort_order"))
    if lz_examples:
        cx.notes.append("inet: values that match the patterns of the typedef and are refused by inet_pton (decimal octet with a leading zero): " + "; ".join(lz_examples))
    valcomp.laws_value(run, accepted, pairs)
    cx.rule("val: ietf-inet-types address / prefix plug-ins (differential against lean/LyModel/Val/Inet.lean with glibc inet_pton / inet_ntop modelled, patterns "
            "from ietf-inet-types@2013-07-15.yang; laws against python ipaddress + the RFC 6991 patterns in python re + RFC 5952 text written from the integer "
            "value): %d lexical values over the 6 typedefs (every zero-run position and length for `::`, 1-4 digit groups / leading zeros / upper case, 7 / 8 / 9 "
            "groups, `::` for zero groups, dotted quads in every position, IPv4-mapped and -compatible forms, octet bounds, blanks, zones of every class, prefix "
            "lengths 0..limit+ and their spellings, host bits on every boundary, NUL at every position, malformed UTF-8, one-byte damage), %d accepted; %d LYB "
            "inputs (every size around the fixed one, zone bytes of every class, prefix bytes around the limit); %d hint sets; cmp / leaf-list order over %d "
            "pairs (spellings of one value, address neighbours, zones, lengths), value -> LYB -> value, dup, tree LYB" % (total, n_acc, n_lyb, len(HINTS), n_pairs))
