"""C13 — diffs can be reversed and composed (src/diff.c: lyd_diff_reverse_all, lyd_diff_merge_all).

(P) Props/C13Tree.lean: merge_apply_partial_tree — apply(merge(diff(A,B), diff(B,C)), A) = C for ALL well-formed trees of the
      fragment (keyed system-ordered lists, leaf-lists, containers, choices, any depth) with LYD_DIFF_DEFAULTS, both settings of
      LYD_DIFF_MERGE_DEFAULTS (repaired F18(b)), under the decidable side condition mergeSafe (all cells of the merge table, inherited
      operations included; excluded: a default-flagged second value in the cell none + replace, malformed key copies);
      apply_exact_obs_keyed (forward specification of apply on exact diffs).  Props/C13RevUO.lean: the list core of the repaired
      reversal of user-ordered lists (F15).
    Props/C13.lean, Props/C13Merge.lean: reverse_apply_partial (unbounded: exact diffs of good trees — leaves,
      containers, choices, system-ordered lists / leaf-lists at any depth — reversed and applied give the tree back, default
      flags included), reverse_involutive, the witnesses of F15 / F18, the 4 x 4 merge table against the source
      (Generated/Diff13.lean, tools/extractors/diff13.py) and, for leaves, cell by cell against the composition of the two
      applications (merge_cell_*, merge_cell_apply, merge_cancel_leaf, merge_rejected_unreachable).
(K) correspondence, harness `api_diff13` vs model `LyModel.Diff` (Reverse.lean, MergeDiff.lean), component `diff13`:
      diff      libyang's diff tree = the model's (all siblings; C06's correspondence: a case where it fails is skipped here)
      exact     [model only] the hypothesis of reverse_apply_partial — the diff is an exact diff of a good tree — holds for
                every generated pair over schemas without user-ordered nodes
      reverse   lyd_diff_reverse_all(diff(A,B)) = Diff.reverse, token for token (operation, orig-value/orig-default/key/value/
                position/orig-* metadata in their order, values, flags), then the tree lyd_diff_apply_all makes of B with it and
                the verdict of the comparison with A
      merge3    lyd_diff_merge_all(diff(A,B), diff(B,C)) = Diff.mergeDiff (or the error class), the tree apply makes of A with
                it, the verdict of the comparison with C; with and without LYD_DIFF_DEFAULTS x LYD_DIFF_MERGE_DEFAULTS
(L) laws on the implementation, from the same replies (the verdicts are computed by libyang itself:
      lyd_compare_siblings(FULL_RECURSION | DEFAULTS), or re-validation + comparison without the flag when the diffs ignore
      defaults):  apply(B, reverse(diff(A,B))) = A;  apply(A, merge(diff(A,B), diff(B,C))) = C;  C = A  =>  merge is empty;
      `data` stays at the first sibling after apply; plus (`lawr`, `lawm`): inputs unchanged, reverse(reverse(d)) = d and takes
      A to B, merge empty <=> diff(A,C) empty, the returned pointer is the first sibling.
Generators: random S1 schemas (treegen; a batch without any user-ordered / state node = the fragment of the theorems),
B = random edit of A, C = random edit of B / C = A / C = edit of A / independent / minimal; a directed family `nested-twice`
(the same container / list instances changed inside by both diffs); for every triple of the fragment the hypotheses of
merge_apply_partial_tree are evaluated by the model (op `hyp3`) and counted by shape; corpus/diff13 (witnesses of all
findings); exhaustive: all pairs of duplicate-free user-ordered sequences over <= 4 keys (reverse), all triples over 9 tiny
per-node state spaces under the 4 option settings (merge).
Known findings: F15 (reverse of user-ordered changes), F18 (merge without LYD_DIFF_DEFAULTS / with LYD_DIFF_MERGE_DEFAULTS),
F173 (NULL passed to strcmp in lyd_diff_is_redundant), F174 (stale `data` after apply), F154 (leak in apply; found by component
life as well and repaired at HEAD) — recognised by their specific signatures; everything else that breaks a law is a violation.
"""
import itertools, json, os, re
from vlib import treegen as tg, paths
from checks import c06

LEAN_TARGETS = ["LyModel.Props.C13", "LyModel.Props.C13Merge", "LyModel.Props.C13Tree", "LyModel.Props.C13RevUO", "LyModel.Props.C13RevUOTree"]
AUDIT = "Audit/C13.lean"
GENERATED = ["Diff13"]
HARNESS = "api_diff13"
COMP = "diff13"
ENV = {"VERIF_YANG_DIR": os.path.join(paths.REPO, "tests", "modules", "yang")}
ASSUMPTIONS = [
    "data trees are valid instances over schema family S1 (DESIGN §2.4), built through the public API and validated; one module",
    "diffs are produced by lyd_diff_siblings from such trees (the property quantifies over tree triples, not over arbitrary diff trees)",
    "model fragment (correspondence of apply results): as C06 — no two equal instances inside one duplicate-instance sibling group, "
    "no operation below a matched key-less list instance; outside it only the laws are evaluated",
    "the default flag of non-presence containers is not compared (diff dumps, apply results): lyd_compare_siblings and "
    "lyd_diff_apply_all ignore it",
    "equality after apply is lyd_compare_siblings(FULL_RECURSION | DEFAULTS) (with LYD_DIFF_DEFAULTS) or re-validation followed by "
    "lyd_compare_siblings(FULL_RECURSION) (without); the model compares the explicit parts in the second case and answers "
    "'unknown' (verdict not compared, about 8 % of the verdicts without LYD_DIFF_DEFAULTS) when the result carries default nodes "
    "the wanted tree does not have or differs from it only in leaves with their schema default value: what lyd_validate_module "
    "makes of those (LYD_NEW flags, cases) is not modelled; the implementation's own verdict is always evaluated as a law",
    "reverse_apply_partial is proved for exact diffs (Diff/Exact13.lean: exactDiff) of good trees (goodT) under KeyOrder (the type "
    "plugins' sort callbacks are strict total orders); that lyd_diff_siblings(LYD_DIFF_DEFAULTS) produces exact diffs on the "
    "fragment is evaluated on every generated pair whose trees are good (op `exact`), not proved",
    "user-ordered lists/leaf-lists are outside the merge law (lyd_diff_is_redundant documents the merge of moves as lossy): "
    "their merge is compared with the model but a failing apply/compare is not a violation",
    "merge_apply_partial_tree is proved for wfForest trees with canonical key / leaf-list values over a schemaOK schema under "
    "mergeSafe(diff(A,B), diff(B,C)); these four decidable hypotheses are evaluated by the model (op hyp3) on every generated triple "
    "whose schema has no user-ordered / duplicate-instance node, and where they hold the verdict `same` is required of the model's "
    "and of libyang's merge3 reply (LYD_DIFF_DEFAULTS; with LYD_DIFF_MERGE_DEFAULTS when the source has the repaired F18(b) condition)",
]
TRUSTED = ["tools/vlib/treegen.py (schema/instance generator, YANG renderer)", "harness/treeproto.h (tree loader and canonical dump)"]


# ----------------------------------------------------------------------------------------------------
# helpers on python trees
# ----------------------------------------------------------------------------------------------------

meta = c06.meta


def anchor_name(sn):
    return "position" if sn.dup_inst() else ("key" if sn.kind == "list" else "value")


def walk_eff(forest, inh=None, parent=None, out=None):
    """(node, effective op, own op, diff parent) for every node of a diff"""
    out = [] if out is None else out
    for n in forest:
        own = meta(n, "operation")
        own = own.decode() if own is not None else None
        op = own if own is not None else inh
        out.append((n, op, own, parent))
        walk_eff(n.kids, (inh if own == "replace" else op), n, out)
    return out


def has_userord_below(n):
    return n.sn.is_userord() or any(has_userord_below(k) for k in n.kids)


def explicit(forest):
    """the explicit part: no default-flagged term, no non-presence container without explicit content"""
    out = []
    for n in forest:
        if n.sn.is_term():
            dflts = n.sn.dflts if n.sn.kind == "leaflist" else ([n.sn.dflt] if n.sn.dflt is not None else [])
            if not ((n.flags & tg.F_DFLT) and n.val in dflts):
                out.append(n)
        else:
            ks = explicit(n.kids)
            if n.sn.np_cont() and not ks:
                continue
            out.append(tg.DN(n.sn, None, ks, n.flags))
    return out


def shape(forest, dflt, sort_uo):
    """nested tuples for comparison; sort_uo: instances of user-ordered groups sorted (order ignored)"""
    res, i = [], 0
    while i < len(forest):
        j = i
        while j < len(forest) and forest[j].sn is forest[i].sn:
            j += 1
        grp = [(n.sn.sid, n.val if n.sn.is_term() else None, (n.flags & tg.F_DFLT) if (dflt and n.sn.is_term()) else 0,
                shape(n.kids, dflt, sort_uo)) for n in forest[i:j]]
        if sort_uo and forest[i].sn.is_userord():
            grp.sort(key=repr)
        res += grp
        i = j
    return tuple(res)


def obs_shape(forest, o, sort_uo=False):
    return shape(forest, True, sort_uo) if o else shape(explicit(forest), False, sort_uo)


# ----------------------------------------------------------------------------------------------------
# features of a failing case (computed when the failure is recorded; classify() looks only at them)
# ----------------------------------------------------------------------------------------------------

def reverse_features(s, A, B, D, R, X, o):
    """D = diff(A,B), R = reversed diff (None if reverse failed), X = tree after apply (None if apply failed / not dumped)"""
    f = set()
    uo_groups = {}
    for n, op, own, par in walk_eff(D):
        if n.sn.is_userord() and own == "replace" and meta(n, anchor_name(n.sn)) == meta(n, "orig-" + anchor_name(n.sn)):
            f.add("uo-equal-anchors")            # F15(d)
        if n.sn.is_userord() and n.sn.dup_inst() and own == "replace":
            f.add("uo-position-move")            # F15(c): positions count the moved instance itself
        if n.sn.is_userord() and own in ("create", "delete", "replace"):
            f.add("uo-op")
            uo_groups.setdefault((id(par), n.sn.sid), []).append(own)
        if op == "delete" and own == "delete" and has_userord_below(n):
            f.add("uo-deleted")                      # F15(b): the reversed delete is a create that needs an anchor
    if any(sum(1 for x in ops if x in ("create", "replace")) >= 2 or ("delete" in ops and len(ops) >= 2) for ops in uo_groups.values()):
        f.add("uo-several-ops-in-group")             # F15(a): the order of the reversed operations matters
    if R is not None:
        for n, op, own, par in walk_eff(R):
            if n.sn.is_userord() and op == "create" and meta(n, anchor_name(n.sn)) is None:
                f.add("uo-create-without-anchor")    # F15(b)
    if X is not None:
        if obs_shape(X, o) != obs_shape(A, o) and obs_shape(X, o, True) == obs_shape(A, o, True):
            f.add("differs-only-in-userord-order")
    else:
        f.add("result-not-dumped")                   # apply failed, or equal instances next to default ones before re-validation
    return sorted(f)


def all_default(n):
    """a default-flagged term, or a non-presence container with nothing but such nodes below it"""
    if n.sn.is_term():
        return bool(n.flags & tg.F_DFLT)
    return n.sn.np_cont() and all(all_default(k) for k in n.kids)


def schema_dflts(sn):
    return sn.dflts if sn.kind == "leaflist" else ([sn.dflt] if sn.dflt is not None else [])


def ident(n):
    return (n.sn.sid, n.key())


def index_paths(forest, path=(), out=None):
    out = {} if out is None else out
    for n in forest:
        k = path + (ident(n),)
        out.setdefault(k, n)
        index_paths(n.kids, k, out)
    return out


def own_op(n):
    o = meta(n, "operation")
    return o.decode() if o is not None else None


def merge_features(s, A, B, C, D1, D2, M, X, o, mo):
    """features of a merge case: the cells of the 4 x 4 table the two diffs reach (matching nodes as lyd_diff_merge_r does) and
    the exact shapes of finding F18"""
    f = set()
    w1, w2 = walk_eff(D1), walk_eff(D2)
    if any(n.sn.is_userord() and own in ("create", "delete", "replace") for n, op, own, par in w1 + w2) or \
            any(op in ("create", "delete") and own == op and has_userord_below(n) for n, op, own, par in w1 + w2):
        f.add("uo-op")

    def pair(k1, inh1, k2, inh2):
        idx = {}
        for n in k1:
            idx.setdefault(ident(n), n)
        for m in k2:
            if m.sn.iskey:
                continue
            own2 = own_op(m)
            op2 = own2 or inh2
            n = idx.get(ident(m))
            if n is None:
                continue
            own1 = own_op(n)
            op1 = own1 or inh1
            f.add("cell:%s+%s:%s" % (op1, op2, n.sn.kind if not n.sn.np_cont() else "npcont"))
            if not o and op1 == "create" and op2 == "create" and all_default(n):
                f.add("F18a:create-over-default-copy")            # B's default node sits in the first diff's created subtree
            if not o and op1 == "delete" and op2 == "delete" and all_default(m):
                f.add("F18a:delete-of-default-copy")              # ... in the second diff's deleted subtree
            if mo and op1 == "delete" and op2 == "create" and n.sn.kind == "leaf" and m.val in schema_dflts(n.sn) and n.val != m.val:
                f.add("F18b:merge-defaults-leaf-recreated-with-default-value")
            pair(n.kids, inh1 if own1 == "replace" else op1, m.kids, inh2 if own2 == "replace" else op2)
    pair(D1, None, D2, None)
    if not o and M is not None:
        # a default node of B inside a subtree the merged diff creates, which is not a default node of C
        cidx = index_paths(C)

        def stale(forest, inh, path):
            for n in forest:
                own = own_op(n)
                op = own or inh
                k = path + (ident(n),)
                if op == "create" and n.sn.is_term() and (n.flags & tg.F_DFLT):
                    w = cidx.get(k)
                    if w is None or not (w.flags & tg.F_DFLT) or w.val != n.val:
                        f.add("F18a:stale-default-of-B-in-created-subtree")
                stale(n.kids, inh if own == "replace" else op, k)
        stale(M, None, ())
    if X is not None:
        if obs_shape(X, o) != obs_shape(C, o) and obs_shape(X, o, True) == obs_shape(C, o, True):
            f.add("differs-only-in-userord-order")
    return sorted(f)


def c06_through(s, T, W, D, verdict, o, feat0):
    """applying D to T (wanted: W) fails in a way C06 already lists (F120-F128): the id of that finding.
    feat0: C06's features of the diff(s) D was made from."""
    if verdict.startswith("Reverse:") or verdict.startswith("Merge:"):
        return "F126" if (verdict.endswith("Eint") and "move-with-content" in feat0) else None
    feat = set(feat0)
    if D is not None:
        feat |= set(c06.features(s, T, W, D, o))
    if verdict.startswith("E:"):
        case = {"law": "apply", "verdict": verdict[2:], "features": sorted(feat), "opts": o}
    else:
        case = {"law": "cmp", "verdict": "0", "features": sorted(feat), "opts": o}
    return c06.classify("diff", "", case)


def merge_dflt_repaired():
    """Generated/Diff13.lean mergeDfltNeedsDeletedDflt (written by tools/extractors/diff13.py from the source on this run)"""
    try:
        t = open(os.path.join(paths.LEAN, "LyModel", "Generated", "Diff13.lean")).read()
        return "mergeDfltNeedsDeletedDflt : Bool := true" in t
    except Exception:
        return False


def in_fragment(feat):
    return c06.in_fragment(feat)


def classify(component, what, case):
    """Which known finding is this failing case an instance of?  Specific: law + verdict + features of the input."""
    law, verdict, feat = case.get("law"), case.get("verdict") or "", set(case.get("features", []))
    if case.get("crash"):
        st = case.get("stderr", "")
        if "LeakSanitizer" in what or "leaked" in what or "LeakSanitizer" in st:
            # F154 (component life; repaired at HEAD): the copy made for a user-ordered create is not freed when the anchor
            # metadata is missing (reached through F15(b)); every allocation stack in the report must be that one
            blocks = [b for b in st.split("leak of ")[1:] if "lyd_" in b]
            if blocks and all("lyd_diff_apply_r" in b and "lyd_dup" in b and "lyd_diff_merge" not in b and "lyd_diff_reverse" not in b
                              for b in blocks):
                return "F154"
        # F173: lyd_diff_is_redundant() reads the orig-default metadata of a 'none' leaf / leaf-list node without checking that
        # it exists (assert only); reached when a diff of a moved state list instance (C06: whole subtree under 'replace',
        # children without operation) is merged
        if "lyd_diff_is_redundant" in st and "null pointer" in st and "lyd_diff_merge_r" in st:
            return "F173"
        return None
    if law == "applyptr" and "top-level-first-instance-moved-behind-anchor" in feat:
        # F174: lyd_diff_insert sets *first_node to the anchor when the first sibling is moved behind it
        return "F174"
    if law == "reverse":
        if case.get("model_verdict") not in (None, verdict, "unknown"):
            return None     # the implementation fails differently from the model of the pinned behaviour: not a listed finding
        # F15(d): orig-value = value = '' (first place / predecessor with the empty value): lyd_change_meta reports "no change"
        if verdict == "Reverse:Enot" and "uo-equal-anchors" in feat:
            return "F15"
        # F15(b): a reversed delete of (or above) a user-ordered instance is a create without key/value/position anchor
        if verdict == "E:Einval" and "uo-create-without-anchor" in feat:
            return "F15"
        # F15(a): reversed moves/creates of one user-ordered group are applied in forward order: an anchor is not there (yet)
        if verdict == "E:Einval" and "uo-several-ops-in-group" in feat:
            return "F15"
        # F15(c): a reversed move in a position-addressed list: orig-position counted without the instance, position with it
        if verdict == "E:Einval" and "uo-position-move" in feat:
            return "F15"
        # ... or the result has the right content in another order
        if verdict == "differs" and "differs-only-in-userord-order" in feat and "uo-op" in feat:
            return "F15"
        # ... the result was not dumped (duplicate instances next to default ones before re-validation, no LYD_DIFF_DEFAULTS):
        # accepted only for the shapes that are F15 for certain
        if verdict == "differs" and "result-not-dumped" in feat and not case.get("opts") and \
                ({"uo-position-move", "uo-several-ops-in-group"} & feat):
            return "F15"
    if law == "merge":
        o, mo = case.get("opts"), case.get("mopts")
        # F18(a): without LYD_DIFF_DEFAULTS a created / deleted subtree carries copies of default nodes the other diff cannot see
        if not o and verdict in ("Merge:Einval", "Merge:Eint") and \
                ({"F18a:create-over-default-copy", "F18a:delete-of-default-copy"} & feat):
            return "F18"
        if not o and (verdict == "differs" or verdict.startswith("E:")) and "F18a:stale-default-of-B-in-created-subtree" in feat:
            return "F18"
        # F18(b): LYD_DIFF_MERGE_DEFAULTS, delete + create of a leaf with its schema default value -> "none" with the old value
        if mo and verdict == "differs" and "F18b:merge-defaults-leaf-recreated-with-default-value" in feat:
            return "F18"
    return None


# ----------------------------------------------------------------------------------------------------
# cases
# ----------------------------------------------------------------------------------------------------

class Case:
    __slots__ = ("s", "A", "B", "C", "kind", "a", "b", "c", "D1", "D2", "f1", "f2", "gap")

    def __init__(self, s, A, B, C, kind):
        self.s, self.A, self.B, self.C, self.kind = s, A, B, C, kind
        self.a = self.b = self.c = None
        self.D1, self.D2, self.f1, self.f2 = {}, {}, {}, {}
        self.gap = set()                     # option settings for which the model's diff is not libyang's (C06 gap)


def schema_line(i, s):
    return "%s %s schema %s %s" % (i, COMP, tg.hx(s.dsl()), tg.hx(s.yang().encode()))


def run_impl(cx, schemas, lines):
    """the request lines with the schema registrations in front; a harness that was restarted after a crash has lost its
    schemas: what it answered with NoSchema is run again (until nothing is lost any more)"""
    head = [schema_line("S%d" % i, s) for i, s in enumerate(schemas)]
    rep = cx.run_impl(HARNESS, head + lines, component=COMP, env=ENV)
    for _ in range(60):
        lost = [l for l in lines if rep.get(l.split()[0], [None, None])[:2] in (["err", "NoSchema"], ["err", "NotRun"])]
        if not lost:
            break
        rep.update(cx.run_impl(HARNESS, head + lost, component=COMP, env=ENV))
    # implementation-only trailing field P:<n> (stale `data` pointer after apply): taken off the reply, kept aside
    for i, r in rep.items():
        if r and r[-1].startswith("P:"):
            if r[-1] != "P:0":
                STALE[i] = r[-1]
            rep[i] = r[:-1]
    return rep


STALE = {}


def run_model(cx, schemas, lines):
    if not lines:
        return {}
    head = [schema_line("S%d" % i, s) for i, s in enumerate(schemas)]
    return cx.run_model(head + lines)


def gen_triples(cx, s, rng, n):
    g = tg.TreeGen(rng, s, density=rng.choice([0.4, 0.6, 0.8]), max_inst=rng.choice([3, 4]))
    gmin = tg.TreeGen(rng, s, density=0.0)
    out = []
    for _ in range(n):
        A = g.tree()
        r = rng.random()
        if r < 0.80:
            B = g.edit(A, rate=rng.choice([0.15, 0.35, 0.6]))
        elif r < 0.88:
            B = gmin.tree()
        elif r < 0.94:
            A, B = gmin.tree(), A
        else:
            B = g.tree()
        r = rng.random()
        if r < 0.55:
            C, kind = g.edit(B, rate=rng.choice([0.15, 0.35, 0.6])), "chain"
        elif r < 0.72:
            C, kind = [x.clone() for x in A], "back"               # the second diff undoes the first one
        elif r < 0.84:
            C, kind = g.edit(A, rate=0.3), "near-back"             # ... most of it
        elif r < 0.90:
            C, kind = [x.clone() for x in B], "stay"
        elif r < 0.95:
            C, kind = gmin.tree(), "to-minimal"
        else:
            C, kind = g.tree(), "independent"
        out.append(Case(s, A, B, C, kind))
    return out


def deep_touch(g, forest, p):
    """an edit that keeps every container / list instance and changes, INSIDE them at any depth, leaves and leaf-lists with
    probability p (value, default-ness, create / delete of leaves and leaf-list instances)"""
    def level(skids, insts):
        out = []
        for sn in skids:
            if not sn.is_data():
                out += [n for n in insts if g.under(n.sn, sn)]          # a choice: its case is kept as it is
                continue
            mine = [n for n in insts if n.sn is sn]
            if sn.kind == "container":
                for n in mine:
                    n.kids = level(sn.kids, n.kids)
                out += mine
            elif sn.kind == "list":
                nk = len(sn.keys)
                for n in mine:
                    n.kids = n.kids[:nk] + level(sn.kids[nk:], n.kids[nk:])
                out += mine
            elif g.rng.random() < p:
                out += g.mutate(sn, mine, 1.0)
            else:
                out += mine
        return out
    return tg.canon(level(g.s.top, [n.clone() for n in forest]))


def gen_nested_twice(cx, s, rng, n):
    """directed family for merge_apply_partial_tree (Props/C13Tree.lean): the SAME container / list instances are changed inside
    by both diffs (leaf cells below `none` + `none` inner nodes, at any depth) — rare among the random chains"""
    g = tg.TreeGen(rng, s, density=0.9, max_inst=rng.choice([3, 4]))
    out = []
    for _ in range(n):
        A = g.tree()
        B = deep_touch(g, A, rng.choice([0.4, 0.7]))
        C = deep_touch(g, B, rng.choice([0.4, 0.7]))
        out.append(Case(s, A, B, C, "nested-twice"))
    return out


def build_trees(cx, schemas, cases):
    lines, want = [], []
    for k, c in enumerate(cases):
        d = tg.hx(c.s.dsl())
        for which, t in (("a", c.A), ("b", c.B), ("c", c.C)):
            if t is None or getattr(c, which) is not None:
                continue
            i = "b%d%s" % (k, which)
            lines.append("%s %s build %s %s" % (i, COMP, d, tg.tok(t)))
            want.append((i, c, which))
    rep = run_impl(cx, schemas, lines)
    bad = 0
    for i, c, which in want:
        r = rep.get(i, ["err", "NoReply"])
        if r[0] == "ok":
            setattr(c, which, r[1])
        else:
            bad += 1
            cx.dist["build:" + " ".join(r[:2])] += 1
    if bad:
        cx.notes.append("%d generated trees were not accepted by libyang (generator defect, cases dropped)" % bad)
    return [c for c in cases if c.a is not None and c.b is not None and (c.C is None or c.c is not None)]


def compare(cx, lines, ri, rm, kind, nontrivial):
    """count every line; lines the model answered must agree token for token"""
    for l in lines:
        i = l.split()[0]
        a = ri.get(i, ["err", "NoReply"])
        cx.count(" ".join(l.split()[2:]), nontrivial(l, a), kind(l, a))
        if i in rm:
            b = rm[i]
            if b[0] == "ok" and b[-1] == "unknown" and a[0] == "ok" and len(a) == len(b):
                # stale default nodes in the result: what re-validation makes of them is not modelled (Diff/Obs13.lean)
                cx.dist["model-verdict-unknown(revalidation of stale defaults)"] += 1
                a, b = a[:-1], b[:-1]
            if a != b and a[:2] not in (["err", "Crash"], ["err", "Timeout"]):
                cx.disagree(COMP, l, a, b)
    if lines:
        cx.sample(lines[cx.rng.randrange(len(lines))][:600])


def kind_of(line, reply):
    op = line.split()[2]
    if reply[0] != "ok":
        return "%s:%s" % (op, reply[1] if len(reply) > 1 else "?")
    if op in ("reverse", "merge3"):
        return "%s:%s" % (op, reply[-1] if not reply[-2].startswith("E:") else reply[-2])
    return "%s:ok" % op


def fx_token(cx):
    """the repaired findings of component diff the MODEL of apply has to follow (ignored by the harness)"""
    return "fx=" + (",".join(sorted(f[1:] for f in ("F120", "F126", "F128") if cx.findings.get(f, {}).get("status") == "fixed")) or "-")


def nontriv(line, reply):
    return not (reply[0] == "ok" and len(reply) > 1 and reply[1] == "-")


def process(cx, schemas, cases, tag, reverse=True, merge=True, laws_every=4, merge_opts=((0, 0), (1, 0), (0, 1), (1, 1)),
            on_reverse=None):
    cases = build_trees(cx, schemas, cases)
    fx = fx_token(cx)
    # ---- 1. the diffs (correspondence shared with C06; gives the features for the fragment and the classification)
    lines, idx = [], {}
    for k, c in enumerate(cases):
        d = tg.hx(c.s.dsl())
        for o in (0, 1):
            i = "d%s%d.%d" % (tag, k, o)
            lines.append("%s %s diff %s %s %s %d %s" % (i, COMP, d, c.a, c.b, o, fx))
            idx[i] = (c, o, 1)
            if merge and c.c is not None:
                i = "e%s%d.%d" % (tag, k, o)
                lines.append("%s %s diff %s %s %s %d %s" % (i, COMP, d, c.b, c.c, o, fx))
                idx[i] = (c, o, 2)
    ri = run_impl(cx, schemas, lines)
    rm = run_model(cx, schemas, lines)
    for l in lines:
        i = l.split()[0]
        a, b = ri.get(i, ["err", "NoReply"]), rm.get(i, ["err", "NoReply"])
        cx.count(" ".join(l.split()[2:]), nontriv(l, a), kind_of(l, a))
        if a != b and a[:2] not in (["err", "Crash"], ["err", "Timeout"]):
            # the diff itself is C06's correspondence (component diff); such a case cannot be compared here
            idx[i][0].gap.add(idx[i][1])
            cx.dist["skipped: the diff model disagrees with lyd_diff_siblings (C06 gap)"] += 1
    if lines:
        cx.sample(lines[cx.rng.randrange(len(lines))][:600])
    for i, (c, o, which) in idx.items():
        r = ri.get(i, ["err", "NoReply"])
        if r[0] != "ok":
            continue
        if which == 1:
            c.D1[o] = tg.untok(c.s, r[1])
            c.f1[o] = c06.features(c.s, tg.untok(c.s, c.a), tg.untok(c.s, c.b), c.D1[o], o)
        else:
            c.D2[o] = tg.untok(c.s, r[1])
            c.f2[o] = c06.features(c.s, tg.untok(c.s, c.b), tg.untok(c.s, c.c), c.D2[o], o)
    # ---- 1b. the hypothesis of reverse_apply_partial, evaluated by the model on its own diffs (= libyang's, stage 1)
    if True:
        lines = []
        for k, c in enumerate(cases):
            if not any(n.is_userord() or n.dup_inst() for n in c.s.nodes) and 1 not in c.gap:
                lines.append("x%s%d diff13 exact %s %s %s 1 %s" % (tag, k, tg.hx(c.s.dsl()), c.a, c.b, fx))
        rm = run_model(cx, schemas, lines)
        for l in lines:
            r = rm.get(l.split()[0], ["err", "NoReply"])
            cx.count(" ".join(l.split()[2:]), True, "exact:" + " ".join(r[:1] + r[1:5]))
            if r[0] != "ok" or r[1:5] != ["1", "1", "1", "1"]:
                # the trees are in the fragment (no user-ordered schema node at all) but the diff is not an exact diff
                cx.disagree(COMP, l, ["ok", "1", "1", "1", "1"], r)
    # ---- 2. reverse and merge: implementation everywhere, model inside its fragment
    lines, mlines, idx = [], [], {}
    for k, c in enumerate(cases):
        d = tg.hx(c.s.dsl())
        for o in (0, 1):
            if reverse and o in c.D1:
                i = "r%s%d.%d" % (tag, k, o)
                l = "%s %s reverse %s %s %s %d %s" % (i, COMP, d, c.a, c.b, o, fx)
                lines.append(l)
                idx[i] = (c, o, None)
                if in_fragment(c.f1[o]) and o not in c.gap:
                    mlines.append(l)
                else:
                    cx.dist["out-of-fragment(reverse)"] += 1
        if merge and c.c is not None:
            for o, mo in merge_opts:
                if o not in c.D1 or o not in c.D2:
                    continue
                i = "m%s%d.%d%d" % (tag, k, o, mo)
                l = "%s %s merge3 %s %s %s %s %d %d %s" % (i, COMP, d, c.a, c.b, c.c, o, mo, fx)
                lines.append(l)
                idx[i] = (c, o, mo)
                if in_fragment(c.f1[o]) and in_fragment(c.f2[o]) and not c06.dupinst_has_duplicates(tg.untok(c.s, c.a)) and \
                        o not in c.gap:
                    mlines.append(l)
                else:
                    cx.dist["out-of-fragment(merge)"] += 1
    ri = run_impl(cx, schemas, lines)
    rm = run_model(cx, schemas, mlines)
    compare(cx, lines, ri, rm, kind_of, nontriv)
    # ---- 2b. the hypotheses of merge_apply_partial_tree (Props/C13Tree.lean), evaluated by the model on every triple of the
    # fragment; where they hold the theorem says that the model's merge3 succeeds with the verdict "same" (LYD_DIFF_DEFAULTS;
    # with LYD_DIFF_MERGE_DEFAULTS given the repaired F18(b)) — and the correspondence above carries that over to libyang
    if merge:
        hl, hidx = [], {}
        for k, c in enumerate(cases):
            if c.c is None or 1 not in c.D1 or 1 not in c.D2 or 1 in c.gap:
                continue
            if any(n.is_userord() or n.dup_inst() for n in c.s.nodes):
                cx.dist["hyp3: schema has user-ordered / duplicate-instance nodes (outside merge_apply_partial_tree)"] += 1
                continue
            i = "h%s%d" % (tag, k)
            hl.append("%s %s hyp3 %s %s %s %s %s" % (i, COMP, tg.hx(c.s.dsl()), c.a, c.b, c.c, fx))
            hidx[i] = (k, c)
        hm = run_model(cx, schemas, hl)
        f18b_fixed = cx.findings.get("F18", {}).get("status") == "fixed" or merge_dflt_repaired()
        for l in hl:
            i = l.split()[0]
            k, c = hidx[i]
            r = hm.get(i, ["err", "NoReply"])
            if r[0] != "ok" or len(r) != 6:
                cx.disagree(COMP, l, ["ok", "?", "?", "?", "?", "?"], r)
                continue
            if r[1:4] == ["1", "1", "1"] and r[4] != r[5]:
                # mergeSafe_of_computed (Diff/LemmasKeyCopy.lean): for computed diffs of well-formed trees the conditions on the key
                # copies hold by themselves, mergeSafe = mergeSafe0
                cx.disagree(COMP, "mergeSafe_of_computed: mergeSafe0 and mergeSafe differ on a computed pair: " + l, ["ok"] + r[1:5] + [r[4]], r)
            cx.dist["hyp3: mergeSafe0 (merge_apply_partial_tree_computed) " + ("holds" if r[5] == "1" else "fails")] += 1
            holds = r[1:5] == ["1", "1", "1", "1"]
            feat = merge_features(c.s, tg.untok(c.s, c.a), tg.untok(c.s, c.b), tg.untok(c.s, c.c), c.D1[1], c.D2[1], None, None, 1, 0)
            cells = sorted(x for x in feat if x.startswith("cell:"))
            leafcell = any(x.split(":")[2] in ("leaf", "leaflist") for x in cells)
            inlist = any(x == "cell:none+none:list" for x in cells)
            shape = ("meets:" + ("none" if not cells else ("leaf-cells-inside-list-instances" if (leafcell and inlist) else
                     ("leaf-cells" if leafcell else "inner-only")))) if holds else \
                ("not-mergeSafe" if r[1:4] == ["1", "1", "1"] else "hyps:" + "".join(r[1:5]))
            cx.dist["hyp3(merge_apply_partial_tree): " + ("HOLDS " if holds else "") + shape] += 1
            cx.count(" ".join(l.split()[2:]), holds and bool(cells), "hyp3:" + shape)
            if not holds:
                if r[1:4] != ["1", "1", "1"]:
                    # schemaOK / wfForest / canonT must hold for every generated triple of the fragment
                    cx.disagree(COMP, l, ["ok", "1", "1", "1", r[4]], r)
                continue
            for mo in (0, 1):
                if mo and not f18b_fixed:
                    continue
                j = "m%s%d.%d%d" % (tag, k, 1, mo)
                for who, rep in (("model", rm), ("impl", ri)):
                    a = rep.get(j)
                    if a is None or a[:2] in (["err", "Crash"], ["err", "Timeout"], ["err", "NoReply"]):
                        continue
                    if not (a[0] == "ok" and a[-1] in ("same",)):
                        # contradicts the proved theorem (model) / the theorem + correspondence (implementation)
                        cx.disagree(COMP, "theorem merge_apply_partial_tree applies (hyp3 holds) but %s merge3 says otherwise: %s" % (who, l),
                                    ["ok", "...", "same"], a[:1] + a[-2:])
    # ---- 3. the laws, on the implementation's own answers
    for i, (c, o, mo) in idx.items():
        r = ri.get(i, ["err", "NoReply"])
        if mo is None:
            eval_reverse(cx, c, o, r, i, rm.get(i))
            if on_reverse is not None:
                on_reverse(c, o, r)
        else:
            eval_merge(cx, c, o, mo, r, i)
    # ---- 4. more laws (impl only) on a subset
    if laws_every:
        lines, idx = [], {}
        for k, c in enumerate(cases):
            if k % laws_every:
                continue
            d = tg.hx(c.s.dsl())
            o = (k // laws_every) % 2
            if reverse:
                i = "lr%s%d" % (tag, k)
                lines.append("%s %s lawr %s %s %s %d" % (i, COMP, d, c.a, c.b, o))
                idx[i] = (c, o, None)
            if merge and c.c is not None:
                mo = (k // laws_every // 2) % 2
                i = "lm%s%d" % (tag, k)
                lines.append("%s %s lawm %s %s %s %s %d %d" % (i, COMP, d, c.a, c.b, c.c, o, mo))
                idx[i] = (c, o, mo)
        rep = run_impl(cx, schemas, lines)
        for i, (c, o, mo) in idx.items():
            eval_more(cx, c, o, mo, rep.get(i, ["err", "NoReply"]))


def payload(c, law, verdict, o, mo, feat, reply):
    s = c.s
    p = {"law": law, "verdict": verdict, "opts": o, "mopts": mo, "features": feat, "triple_kind": c.kind,
         "schema_dsl": s.dsl().decode(), "schema_yang": s.yang(), "A": c.a, "B": c.b, "C": c.c,
         "A_text": tg.pretty(s, tg.untok(s, c.a))[:2500], "B_text": tg.pretty(s, tg.untok(s, c.b))[:2500],
         "diff1_text": tg.pretty(s, c.D1[o])[:2500] if o in c.D1 else None, "reply": [x[:200] for x in reply[:2]]}
    if c.c is not None and law != "reverse":
        p["C_text"] = tg.pretty(s, tg.untok(s, c.c))[:2500]
        p["diff2_text"] = tg.pretty(s, c.D2[o])[:2500] if o in c.D2 else None
    return p


def parse_reply(s, r):
    """(diff tree | None, apply result | None, verdict)"""
    if r[0] != "ok":
        return None, None, (r[1] if len(r) > 1 else "NoReply")
    R = tg.untok(s, r[1])
    X = None if (r[2].startswith("E:") or r[2] == "DupInstances") else tg.untok(s, r[2])
    return R, X, (r[2] if r[2].startswith("E:") else r[3])


def eval_reverse(cx, c, o, r, rid=None, mr=None):
    if r[:2] in (["err", "Crash"], ["err", "Timeout"]):
        return
    if rid in STALE:
        STALE.pop(rid)
        cx.fail(COMP, "lyd_diff_apply_all(&data, reversed diff) leaves `data` pointing behind the first sibling",
                payload(c, "applyptr", "stale", o, None, ["top-level-first-instance-moved-behind-anchor"], r))
    R, X, verdict = parse_reply(c.s, r)
    cx.dist["law:reverse:" + ("holds" if verdict == "same" else "fails")] += 1
    if verdict == "same":
        return
    A, B = tg.untok(c.s, c.a), tg.untok(c.s, c.b)
    feat = reverse_features(c.s, A, B, c.D1.get(o, []), R, X, o) + list(c.f1.get(o, []))
    p = payload(c, "reverse", verdict, o, None, feat, r)
    if mr is not None and mr[:2] not in (["err", "NoReply"],):
        # the model carries the listed defects of reversal (F15): a failure is an instance of one of them only if the model
        # fails on this input in the same way
        try:
            p["model_verdict"] = parse_reply(c.s, mr)[2]
        except Exception:
            p["model_verdict"] = "?"
    if R is not None:
        p["reversed_text"] = tg.pretty(c.s, R)[:2500]
    if X is not None:
        p["result_text"] = tg.pretty(c.s, X)[:2500]
    through = c06_through(c.s, B, A, R, verdict, o, c.f1.get(o, []))
    if through:
        # a defect of plain diff/apply (a finding of C06) shows through: not a failure of reversal
        cx.dist["reverse:outside(C06 finding %s)" % through] += 1
        return
    cx.fail(COMP, "apply(B, reverse(diff(A,B))) is not A: %s%s" % (verdict, " [LYD_DIFF_DEFAULTS]" if o else ""), p)


def eval_merge(cx, c, o, mo, r, rid=None):
    if r[:2] in (["err", "Crash"], ["err", "Timeout"]):
        return
    if rid in STALE:
        STALE.pop(rid)
        cx.fail(COMP, "lyd_diff_apply_all(&data, merged diff) leaves `data` pointing behind the first sibling",
                payload(c, "applyptr", "stale", o, mo, ["top-level-first-instance-moved-behind-anchor"], r))
    M, X, verdict = parse_reply(c.s, r)
    s = c.s
    A, B, C = tg.untok(s, c.a), tg.untok(s, c.b), tg.untok(s, c.c)
    cancel_ok = True
    if verdict in ("same", "differs") and c.c == c.a and M:
        cancel_ok = False
    ok = verdict == "same" and cancel_ok
    feat = None
    if not ok or True:
        feat = merge_features(s, A, B, C, c.D1.get(o, []), c.D2.get(o, []), M, X, o, mo)
    uo = "uo-op" in feat
    cx.dist["law:merge:%s%s" % ("holds" if ok else "fails", ":userord(outside the law)" if uo else "")] += 1
    if ok:
        return
    if uo:
        # user-ordered (incl. key-less / state) lists are outside the merge law (lyd_diff_is_redundant documents the merge of
        # moves as lossy); how often the result differs in more than the order is reported in the distribution (finding F172)
        if verdict == "differs" and "differs-only-in-userord-order" not in feat:
            cx.dist["law:merge:fails:userord: content differs, not only the order (F172, outside the law)"] += 1
        return
    feat = feat + list(c.f1.get(o, [])) + list(c.f2.get(o, []))
    through = c06_through(s, A, C, M, verdict, o, list(c.f1.get(o, [])) + list(c.f2.get(o, [])))
    if through:
        cx.dist["merge:outside(C06 finding %s)" % through] += 1
        return
    p = payload(c, "merge", verdict, o, mo, feat, r)
    if M is not None:
        p["merged_text"] = tg.pretty(s, M)[:2500]
    if X is not None:
        p["result_text"] = tg.pretty(s, X)[:2500]
    if not cancel_ok and verdict == "same":
        p["law"] = "cancel"
        cx.fail(COMP, "C = A but merge(diff(A,B), diff(B,A)) is not empty%s" % (" [LYD_DIFF_DEFAULTS]" if o else ""), p)
    else:
        cx.fail(COMP, "apply(A, merge(diff(A,B), diff(B,C))) is not C: %s%s%s" % (verdict, " [LYD_DIFF_DEFAULTS]" if o else "",
                                                                                  " [LYD_DIFF_MERGE_DEFAULTS]" if mo else ""), p)


LAWR_OK = {"diff": "Success", "rev": "Success", "pureD": "1", "rev2": "Success", "invol": "1", "rr": "same"}
LAWM_OK = {"diff": "Success", "merge": "Success", "pure2": "1", "ptr": "0"}


def eval_more(cx, c, o, mo, r):
    if r[0] != "ok":
        if r[:2] not in (["err", "Crash"], ["err", "Timeout"]):
            cx.fail(COMP, "law op failed: " + " ".join(r[:2]), payload(c, "harness", " ".join(r[:2]), o, mo, [], r))
        return
    v = dict(f.split("=", 1) for f in r[1:])
    s = c.s
    if mo is None:
        cx.count(("lawr", s.name, c.a, c.b, o), bool(c.D1.get(o)), "lawr:" + ("all-hold" if all(v.get(k, LAWR_OK[k]) == LAWR_OK[k] for k in LAWR_OK) else "some-fail"))
        uo = any(n.sn.is_userord() or (own in ("create", "delete") and has_userord_below(n)) for n, op, own, par in walk_eff(c.D1.get(o, [])))
        for k in ("pureD", "rev", "rev2", "invol", "rr"):
            if k in v and v[k] != LAWR_OK[k]:
                if k == "rev" and v[k] == "Eint" and "move-with-content" in c.f1.get(o, []):
                    cx.dist["lawr:outside(C06 finding F126)"] += 1
                    break
                if k in ("rev", "rev2", "invol", "rr") and uo:
                    cx.dist["lawr:%s-fails:userord" % k] += 1         # covered by the reverse law / F15
                    continue
                if k == "rr" and c06.classify(COMP, "", {"law": "cmp", "verdict": "0", "features": c.f1.get(o, []), "opts": o}):
                    continue
                cx.fail(COMP, "reverse law '%s' fails: %s" % (k, v[k]), payload(c, "lawr:" + k, v[k], o, None, list(c.f1.get(o, [])), r))
    else:
        cx.count(("lawm", s.name, c.a, c.b, c.c, o, mo), bool(c.D1.get(o) or c.D2.get(o)), "lawm:" + ("all-hold" if all(v.get(k, LAWM_OK[k]) == LAWM_OK[k] for k in LAWM_OK) else "some-fail"))
        uo = any(n.sn.is_userord() for n, op, own, par in walk_eff(c.D1.get(o, [])) + walk_eff(c.D2.get(o, [])))
        for k in ("pure2", "ptr"):
            if k in v and v[k] != LAWM_OK[k]:
                if k == "ptr" and uo:
                    cx.dist["lawm:ptr-not-first:userord"] += 1
                    continue
                cx.fail(COMP, "merge law '%s' fails: %s" % (k, v[k]), payload(c, "lawm:" + k, v[k], o, mo, [], r))
        if "empty" in v and "empty3" in v:
            cx.dist["lawm:empty=%s,diffAC-empty=%s" % (v["empty"], v["empty3"])] += 1


# ----------------------------------------------------------------------------------------------------
# the check
# ----------------------------------------------------------------------------------------------------

def run(cx):
    cx.rule("diff13: triples A, B = random edit of A, C = random edit of B | A | edit of A | B | minimal | independent over random "
            "S1 schemas; reverse on (A,B) x LYD_DIFF_DEFAULTS, merge3 on (A,B,C) x LYD_DIFF_DEFAULTS x LYD_DIFF_MERGE_DEFAULTS; "
            "exhaustive user-ordered pairs (reverse) and tiny per-node state spaces (merge); non-trivial = distinct request whose "
            "diff is not empty")
    rng = cx.sub_rng("schemas")
    nsch = cx.n(24, 72)
    per = cx.n(36, 220)
    schemas = [tg.gen_schema(rng, i, max_depth=rng.choice([2, 3, 3])) for i in range(nsch)]
    # the fragment of the theorems: no user-ordered and no state nodes at all
    schemas += [tg.gen_schema(rng, 1000 + i, max_depth=rng.choice([2, 3, 3]), userord=False, state=False) for i in range(cx.n(10, 36))]
    corpus = load_corpus(cx)
    process(cx, list({id(c.s): c.s for c in corpus}.values()), corpus, tag="corpus", laws_every=1)
    # schema by schema in chunks (bounded memory; every chunk is one harness / driver process each)
    chunk = 12
    for lo in range(0, len(schemas), chunk):
        cases = []
        for i, s in enumerate(schemas[lo:lo + chunk]):
            cases += gen_triples(cx, s, cx.sub_rng("triples%d" % (lo + i)), per)
            if not any(n.is_userord() or n.dup_inst() for n in s.nodes) and any(n.kind == "list" for n in s.nodes):
                cases += gen_nested_twice(cx, s, cx.sub_rng("nested%d" % (lo + i)), cx.n(10, 60))
        process(cx, schemas[lo:lo + chunk], cases, tag="rand%d" % lo)
    exhaustive_reverse(cx)
    exhaustive_merge(cx)
    cx.exhaustive = True


# ----------------------------------------------------------------------------------------------------
# exhaustive small spaces
# ----------------------------------------------------------------------------------------------------

def L(name, ty="string", **kw):
    return tg.SNode("leaf", name, ty=tg.Ty(ty), **kw)


def tiny_spaces():
    """(schema, explicit trees): tiny per-node state spaces; every triple of states is merged under all option settings"""
    out = []
    S, N, DN = tg.Schema, tg.SNode, tg.DN

    def space(name, top, states):
        s = S(name, top)
        byname = {n.name: n for n in s.nodes}

        def mk(d):
            """d: nested python description  {name: value | [values] | {...} | [ {...}, ... ]}"""
            res = []
            for k, v in d.items():
                sn = byname[k]
                if sn.kind == "leaf":
                    res.append(DN(sn, v))
                elif sn.kind == "leaflist":
                    res += [DN(sn, x) for x in v]
                elif sn.kind == "container":
                    res.append(DN(sn, None, mk(v)))
                elif sn.kind == "list":
                    res += [DN(sn, None, mk(x)) for x in v]
            return tg.canon(res)
        out.append((s, [mk(d) for d in states]))

    # 1 leaf with a default, top level and in a np container
    space("t1leafd", [L("f", dflt=b"d"), N("container", "c", kids=[L("g", dflt=b"d"), L("h")])],
          [{}, {"f": b"d"}, {"f": b"x"}, {"f": b"y"}, {"c": {"g": b"x"}}, {"c": {"g": b"d", "h": b"1"}}, {"f": b"x", "c": {"h": b"1"}}])
    # 2 leaves without default in a np container
    space("t2leaf", [N("container", "c", kids=[L("f"), L("g")])],
          [{}, {"c": {"f": b"x"}}, {"c": {"f": b"y"}}, {"c": {"g": b"x"}}, {"c": {"f": b"x", "g": b"y"}}])
    # 3 presence container
    space("t3pres", [N("container", "p", presence=True, kids=[L("f"), L("g", dflt=b"d")])],
          [{}, {"p": {}}, {"p": {"f": b"x"}}, {"p": {"g": b"x"}}, {"p": {"f": b"y", "g": b"d"}}])
    # 4 list entry with a np container that has a default leaf (witness of F18)
    space("t4lnw", [N("list", "ln", keys=["k"], kids=[L("k", "uint8", iskey=True), N("container", "n", kids=[L("w", dflt=b"dv"), L("u")])])],
          [{}, {"ln": [{"k": b"0"}]}, {"ln": [{"k": b"0", "n": {"w": b"v"}}]}, {"ln": [{"k": b"0", "n": {"w": b"dv"}}]},
           {"ln": [{"k": b"0", "n": {"u": b"1"}}]}, {"ln": [{"k": b"0"}, {"k": b"1", "n": {"w": b"v"}}]}])
    # 5 choice with a default case
    space("t5choice", [N("choice", "ch", dflt="a", kids=[N("case", "a", kids=[L("fa", dflt=b"da"), L("ga")]), N("case", "b", kids=[L("fb"), L("gb", dflt=b"db")])])],
          [{}, {"fa": b"x"}, {"fa": b"da"}, {"ga": b"1"}, {"fb": b"y"}, {"gb": b"z"}, {"fb": b"y", "gb": b"db"}])
    # 6 system-ordered leaf-list with defaults
    space("t6ll", [N("leaflist", "ll", ty=tg.Ty("string"), dflts=[b"a", b"b"]), N("leaflist", "mm", ty=tg.Ty("uint8"))],
          [{}, {"ll": [b"a"]}, {"ll": [b"a", b"b"]}, {"ll": [b"c"]}, {"mm": [b"1", b"2"]}, {"ll": [b"b", b"c"], "mm": [b"2"]}, {"mm": [b"3", b"1"]}])
    # 7 system-ordered list, entries with a default leaf
    space("t7list", [N("list", "l", keys=["k"], kids=[L("k", "uint8", iskey=True), L("v", dflt=b"dv"), L("w")])],
          [{}, {"l": [{"k": b"0"}]}, {"l": [{"k": b"0", "v": b"x"}]}, {"l": [{"k": b"0", "w": b"1"}, {"k": b"1"}]}, {"l": [{"k": b"1", "v": b"dv"}]},
           {"l": [{"k": b"0", "v": b"y", "w": b"2"}]}])
    # 8 nested np containers over a default leaf
    space("t8npnp", [N("container", "c1", kids=[N("container", "c2", kids=[L("f", dflt=b"d"), L("g")]), L("h")])],
          [{}, {"c1": {"c2": {"f": b"x"}}}, {"c1": {"c2": {"f": b"d"}}}, {"c1": {"h": b"1"}}, {"c1": {"c2": {"g": b"1"}, "h": b"2"}}])
    # 9 choice without default: a list in one case, a presence container in the other
    space("t9chlist", [N("choice", "ch", kids=[N("case", "a", kids=[N("list", "l", keys=["k"], kids=[L("k", "uint8", iskey=True), L("v")])]),
                                              N("case", "b", kids=[N("container", "p", presence=True, kids=[L("f", dflt=b"d")])])])],
          [{}, {"l": [{"k": b"0"}]}, {"l": [{"k": b"0", "v": b"x"}, {"k": b"1"}]}, {"p": {}}, {"p": {"f": b"x"}}])
    return out


def reverse_repaired_in_source():
    """the switch the extractor read off src/diff.c for this run (Generated/Diff13.lean)"""
    try:
        t = open(os.path.join(paths.LEAN, "LyModel", "Generated", "Diff13.lean")).read()
    except OSError:
        return False
    return "def reverseUserordRepaired : Bool := true" in t


def uo_ops(forest, name="ul"):
    """the create / delete / move nodes of the user-ordered (leaf-)list `name` in a diff, in sibling order:
    (op, identity, anchor, original anchor) with op in d c m, '-' = first place, '?' = metadata missing"""
    def ident(n):
        return str(int(n.val) if n.sn.kind == "leaflist" else int(n.kids[0].val))

    def anc(n, mname):
        v = meta(n, mname)
        if v is None:
            return "?"
        if v == b"":
            return "-"
        if n.sn.kind == "leaflist":
            return str(int(v))
        m = re.match(rb"^\[k='(\d+)'\]$", v)
        return str(int(m.group(1))) if m else "!" + v.decode("latin-1")
    out = []
    for n, op, own, par in walk_eff(forest):
        if n.sn.is_userord() and n.sn.name == name and own in ("create", "delete", "replace"):
            out.append(({"delete": "d", "create": "c", "replace": "m"}[own], ident(n), anc(n, anchor_name(n.sn)),
                        anc(n, "orig-" + anchor_name(n.sn))))
    return out


def core_ops(t):
    """reply field of the driver op `uocore` (d<k>@<orig>  c<k>@<anchor>  m<k>@<anchor>@<orig>, ';' between, '-' = none) as tuples"""
    out = []
    for x in ([] if t == "-" else t.split(";")):
        f = x[1:].split("@")
        out.append({"d": lambda: ("d", f[0], "?", f[1]), "c": lambda: ("c", f[0], f[1], "?"), "m": lambda: ("m", f[0], f[1], f[2])}[x[0]]())
    return out


def pinned_reversal(fwd):
    """what lyd_diff_reverse_all WITHOUT the repair of F15 makes of the operations `fwd`: same order, create <-> delete with the
    metadata left as it is (a created node carries orig-*, a deleted one the anchor), the anchors of a move switched"""
    return [{"d": ("c", k, "?", o), "c": ("d", k, a, "?"), "m": ("m", k, o, a)}[op] for op, k, a, o in fwd]


def core_tie(cx, kind, pairs, seen):
    """The list core of the theorems (Diff/UserOrd*.lean: UO.diffU' with original anchors, UO.reverseU) against libyang's diff nodes:
    for every exhaustive pair the operations of lyd_diff_siblings on the list `ul` are UO.diffU' (always), and those of
    lyd_diff_reverse_all are UO.reverseU of them when the repair of F15 is in the source, the pinned shape otherwise."""
    keys = sorted(set(pairs.values()))
    tok = lambda q: ".".join(str(k) for k in q) or "-"
    lines = ["u%s%d diff13 uocore %s %s" % (kind, i, tok(x), tok(y)) for i, (x, y) in enumerate(keys)]
    rm = cx.run_model(lines)
    core = {}
    for l, xy in zip(lines, keys):
        r = rm.get(l.split()[0], ["err", "NoReply"])
        if r[0] != "ok" or len(r) != 3:
            cx.disagree(COMP, l, ["ok", "?", "?"], r)
            continue
        core[xy] = (core_ops(r[1]), core_ops(r[2]))
    repaired = reverse_repaired_in_source()
    for c, o, r in seen:
        xy = pairs.get(id(c))
        if xy not in core or o not in c.D1:
            continue
        fwd, rev = core[xy]
        where = "uocore %s %s %s opts=%d nested=%d" % (kind, tok(xy[0]), tok(xy[1]), o, int(bool(c.A and c.A[0].sn.kind == "container")))
        got = uo_ops(c.D1[o])
        cx.count((where, "fwd"), False, "uocore:forward")        # derived from requests already counted
        if got != fwd:
            cx.disagree(COMP, where + " [forward diff]", ["ok", repr(got)], ["ok", repr(fwd)])
        if r[0] != "ok":
            continue
        got = uo_ops(tg.untok(c.s, r[1]))
        want = rev if repaired else pinned_reversal(fwd)
        cx.count((where, "rev"), False, "uocore:reversed(%s)" % ("repaired" if repaired else "pinned"))
        if got != want:
            cx.disagree(COMP, where + " [reversed diff, %s source]" % ("repaired" if repaired else "pinned"),
                        ["ok", repr(got)], ["ok", repr(want)])


def exhaustive_reverse(cx):
    """all ordered pairs of duplicate-free user-ordered sequences over <= n keys (inside a container; top level for a sample)"""
    plan = [("list", cx.n(4, 4)), ("leaflist", cx.n(4, 4)), ("keyless", cx.n(3, 4)), ("statell", cx.n(3, 4)), ("statelist", cx.n(3, 3))]
    total = 0
    for kind, nk in plan:
        s, seqs, tree = c06.userord_cases(cx, kind, nk)
        cases, pairs, seen = [], {}, []
        for nested in (True, False):
            for ia, x in enumerate(seqs):
                for ib, y in enumerate(seqs):
                    if nested or (ia * 7 + ib) % 11 == 0:
                        cases.append(Case(s, tree(x, nested), tree(y, nested), None, "userord-" + kind))
                        pairs[id(cases[-1])] = (tuple(x), tuple(y))
        total += len(cases)
        before = cx.dist["law:reverse:fails"], cx.dist["law:reverse:holds"]
        process(cx, [s], cases, tag="x" + kind, merge=False, laws_every=cx.n(9, 3),
                on_reverse=(lambda c, o, r: seen.append((c, o, r))) if kind in ("list", "leaflist") else None)
        if kind in ("list", "leaflist"):
            # the identity-addressed kinds: the list core of userord_apply_diff / userord_reverse_apply against libyang's diff nodes
            core_tie(cx, kind, pairs, seen)
        if kind == "leaflist":
            # the open hypothesis of Props/C13RevUOTree.lean (reverse_apply_userord_flat_ll_fixed_of_diff): the diff of two flat
            # top-level leaf-list sibling lists is the encoding of UORev.diffO, orig-value included — evaluated by the model on its
            # own diff (= libyang's: stage 1 of process) for every exhaustive top-level pair
            flat = [c for c in cases if c.a is not None and c.b is not None and not (c.A and c.A[0].sn.kind == "container")
                    and not (c.B and c.B[0].sn.kind == "container") and 1 not in c.gap]
            lines = ["h%d diff13 uohdiff %s %s %s" % (i, tg.hx(s.dsl()), c.a, c.b) for i, c in enumerate(flat)]
            rm = run_model(cx, [s], lines)
            for l in lines:
                r = rm.get(l.split()[0], ["err", "NoReply"])
                cx.count(" ".join(l.split()[2:]), False, "uohdiff:" + " ".join(r[:2]))
                if r[:2] == ["ok", "0"] or r[0] != "ok":
                    cx.disagree(COMP, l, ["ok", "1"], r)
        cx.notes.append("exhaustive (reverse) %s <= %d keys: %d of %d (pair, option) evaluations fail" % (
            kind, nk, cx.dist["law:reverse:fails"] - before[0],
            cx.dist["law:reverse:fails"] - before[0] + cx.dist["law:reverse:holds"] - before[1]))
    cx.notes.append("exhaustive (reverse): %d ordered pairs of duplicate-free user-ordered sequences" % total)


def exhaustive_merge(cx):
    total = 0
    for s, states in tiny_spaces():
        cases = [Case(s, [n.clone() for n in a], [n.clone() for n in b], [n.clone() for n in c], "tiny")
                 for a, b, c in itertools.product(states, repeat=3)]
        total += len(cases)
        process(cx, [s], cases, tag="t" + s.name, reverse=False, laws_every=7)
    cx.notes.append("exhaustive (merge): %d triples over %d tiny per-node state spaces x 4 option settings" % (total, len(tiny_spaces())))


def load_corpus(cx):
    d = os.path.join(paths.CORPUS, "diff13")
    out = []
    if not os.path.isdir(d):
        return out
    import random
    for fn in sorted(os.listdir(d)):
        if not fn.endswith(".json"):
            continue
        j = json.load(open(os.path.join(d, fn)))
        s = ReplaySchema(j["schema_dsl"], j["schema_yang"])
        for t in j["triples"]:
            if j.get("built"):
                # dumps of validated trees (default nodes and flags included): used as they are
                c = Case(s, None, None, None, "corpus")
                c.a, c.b = tg.hx(t[0].encode()), tg.hx(t[1].encode())
                c.c = tg.hx(t[2].encode()) if len(t) > 2 else None
            else:
                c = Case(s, tg.parse_dump(s, t[0]), tg.parse_dump(s, t[1]), tg.parse_dump(s, t[2]) if len(t) > 2 else None, "corpus")
            out.append(c)
    return out


def schema_from_dsl(dsl, yang):
    """the python schema (all attributes) back from the DSL text; yang() returns the recorded text"""
    lines = dsl.split("\n")
    name = lines[0].split(" ")[1]
    top, stack = [], []
    yn = lambda x: x == "1"

    def ty(t):
        if t.startswith("enum:"):
            return tg.Ty("enumeration", [(x.split("=")[0], int(x.split("=")[1])) for x in t[5:].split(",")])
        return tg.Ty(t)
    for line in lines[1:]:
        f = line.split(" ")
        d, kind, nm = int(f[0]), f[1], f[2]
        n = tg.SNode(kind, nm)
        n.kids = []
        if kind == "container":
            n.presence, n.config = yn(f[3]), yn(f[4])
        elif kind == "list":
            n.keys, n.userord, n.min, n.max, n.config = ["?"] * int(f[3]), yn(f[4]), int(f[5]), int(f[6]), yn(f[7])
        elif kind == "leaflist":
            n.ty, n.userord, n.min, n.max, n.config, n.dflts = ty(f[3]), yn(f[4]), int(f[5]), int(f[6]), yn(f[7]), [tg.unhx(x) for x in f[8:]]
        elif kind == "leaf":
            n.ty, n.mandatory, n.config, n.iskey, n.dflt = ty(f[3]), yn(f[4]), yn(f[5]), yn(f[6]), (None if f[7] == "~" else tg.unhx(f[7]))
        elif kind == "choice":
            n.mandatory, n.config, n.dflt = yn(f[3]), yn(f[4]), (None if f[5] == "~" else f[5])
        elif kind == "case":
            n.config = yn(f[3])
        del stack[d:]
        (stack[-1].kids if stack else top).append(n)
        stack.append(n)
    s = tg.Schema(name, top)
    for n in s.nodes:
        if n.kind == "list":
            n.keys = [k.name for k in n.kids[:len(n.keys)]]
    s.dsl = lambda: dsl.encode()
    s.yang = lambda: yang
    return s


ReplaySchema = schema_from_dsl


def replay(cx, payload):
    f = payload.get("failure", {}).get("case") or {}
    if "schema_dsl" not in f:
        return run(cx)
    s = ReplaySchema(f["schema_dsl"], f["schema_yang"])
    c = Case(s, None, None, None, "replay")
    c.a, c.b, c.c = f["A"], f["B"], f.get("C")
    c.A, c.B = tg.untok(s, c.a), tg.untok(s, c.b)
    c.C = tg.untok(s, c.c) if c.c else None
    process(cx, [s], [c], tag="replay", laws_every=1)
