"""C05, YIN schema input: documents outside the YIN grammar must be rejected by lys_parse_mem(LYS_IN_YIN).

Stream: a micro-grammar of YIN element / attribute / text shapes (statement elements with attribute argument, with argument element,
without argument, extension elements; each with text content, children, mixed content, misspelled argument elements, stray attributes)
placed as the substatements of an extension instance of a module.  Three judges of every document:
  * libyang: `lys_parse_mem` through harness/api_fuzz.c (accept / error code);
  * the Lean model of libyang's YIN parser (LyModel/Yin, `yin parseclosed`: yin_parse_extension_instance succeeds and leaves the lexer behind
    the end tag of the instance, so that the enclosing yin_parse_content can go on): must predict accept / reject   [correspondence through the public API];
  * the strict YIN grammar (LyModel/Yin/Strict.lean on the element tree of the independent XML reader, `yin strict`): the law
    "a document outside the YIN grammar is rejected" = libyang accepts  =>  the strict grammar accepts.
Known violations of the law: F341 (text content / mixed content accepted), F342 (`<te>`, `<tex>` accepted as `<text>`)."""
import itertools, os, re
from vlib import paths, proto
from vlib.proto import hexs, unhex

COMP = "yinstrict"
YIN_NS = b"urn:ietf:params:xml:ns:yang:yin:1"

TOKENS = [b'<units name="x"/>', b'<units name="x">t</units>', b'<units name="x"><leaf name="l"/></units>', b'<units name="x">t<leaf name="l"/></units>',
          b'<description><text>d</text></description>', b'<description><te>d</te></description>', b'<description><tex>d</tex></description>',
          b'<description><t>d</t></description>', b'<description><text>a<b/>c</text></description>', b'<description><text>d</text><text>e</text></description>',
          b'<description><text>d</text><units name="u"/></description>', b'<description>t<text>d</text></description>', b'<description/>',
          b'<z:x/>', b'<z:x>t</z:x>', b'<z:x>t<leaf name="l"/></z:x>', b'<z:x a="1"><leaf name="l"/></z:x>', b'<te/>', b'<text>q</text>',
          b'<leaf name="l" foo="1"/>', b'<leaf name="l" z:foo="1"/>', b'<leaf>t</leaf>', b'<leaf/>', b'<input/>', b'<input>t</input>', b'<input name="x"/>',
          b'<error-message><value>m</value></error-message>', b'<error-message><valu>m</valu></error-message>',
          b'<error-message><value>m</value><value value="1"/></error-message>', b'<error-message><text>m</text></error-message>',
          b' ', b't', b'<leef name="l"/>', b'<q:x/>']
WRAPS = [(b"", b""), (b"<z:y>", b"</z:y>"), (b'<container name="c">', b"</container>"), (b'<must condition="1">', b"</must>")]


def docs_of(n, body):
    decl = b' xmlns="' + YIN_NS + b'" xmlns:z="urn:yq%d"' % n
    mod = (b'<module name="yq%d"' % n) + decl + (b'><namespace uri="urn:yq%d"/><prefix value="z"/><yang-version value="1.1"/>' % n) + \
        b'<extension name="e"/><extension name="x"/><extension name="y"/><z:e>' + body + b"</z:e></module>"
    return mod, b"<z:e" + decl + b">" + body + b"</z:e>"


def classify(component, what, case):
    if case.get("law") != "yin-strict":
        return None
    reason, body = case.get("reason"), unhex(case.get("body_hex", "-"))
    if reason in ("text-content", "mixed-content") and re.search(rb">[^<>]*[^<>\s][^<>]*<", body):
        return "F341"
    if reason in ("unknown-element", "argument-element") and re.search(rb"<(te|tex)[ />]", body):
        return "F342"
    return None


def run(cx, exe, env):
    rng = cx.sub_rng("c05-yin")
    bodies = [w0 + t + w1 for t in TOKENS for w0, w1 in WRAPS]
    bodies += [a + b for a, b in itertools.product(TOKENS[:20], repeat=2)]
    for _ in range(cx.n(250, 20000)):
        k = rng.randrange(2, 5)
        w0, w1 = rng.choice(WRAPS)
        bodies.append(w0 + b"".join(rng.choice(TOKENS) for _ in range(k)) + w1)
    bodies = list(dict.fromkeys(bodies))
    cx.rule("c05-yin: substatements of an extension instance from a micro-grammar of YIN shapes (attribute / element / no argument, extension elements; "
            "text content, children, mixed content, misspelled or repeated argument elements, stray attributes, unknown elements and prefixes): every "
            "token alone and inside three wrappers, all pairs of the first 20 tokens, sampled sequences of 2-4 tokens; through lys_parse_mem(LYS_IN_YIN), "
            "the Lean model of the parser and the strict YIN grammar; non-trivial = distinct body")
    impl_lines, model_lines = [], []
    for i, b in enumerate(bodies):
        mod, ext = docs_of(i, b)
        impl_lines.append("%d fuzz schema yin %s" % (i, hexs(mod)))
        model_lines.append("%d yin parseclosed %s" % (2 * i, hexs(ext)))
        model_lines.append("%d yin strict %s" % (2 * i + 1, hexs(ext)))
    crashes = []
    ri, _ = proto.run_lines([exe], impl_lines, timeout=300, env=env, per_crash=crashes.append)
    rm = cx.run_model(model_lines)
    for c in crashes:
        cx.fail("fuzz", "crash in lys_parse_mem(YIN)", {"crash": True, "line": str(c)[:2000]})
    nacc = nout = 0
    for i, b in enumerate(bodies):
        a = ri.get(str(i), ["err", "NoReply"])
        m = rm.get(str(2 * i), ["err", "NoReply"])
        s = rm.get(str(2 * i + 1), ["err", "NoReply"])
        acc = a[0] == "ok"
        verdict = "notxml" if s[0] != "ok" else s[1] if s[1] == "in" else "out(%s)" % s[2]
        cx.count(("c05yin", b), True, "c05yin:%s:model-%s:strict-%s" % ("accepted" if acc else "rejected", "ok" if m[:2] == ["ok", "1"] else "desync" if m[0] == "ok" else m[1] if len(m) > 1 else "err", verdict))
        nacc += acc
        base = {"body_hex": hexs(b), "impl": a[:3], "model": m[:2], "request": impl_lines[i].split(" ", 1)[1][:4000]}
        if acc != (m[:2] == ["ok", "1"]):
            cx.fail(COMP, "lys_parse_mem(LYS_IN_YIN) and the Lean model of the YIN parser disagree on accept / reject", dict(base, law="yin-model"))
        if acc and s[0] == "ok" and s[1] == "out":
            nout += 1
            cx.fail(COMP, "a document outside the YIN grammar (%s) is accepted" % s[2], dict(base, law="yin-strict", reason=s[2]))
    cx.notes.append("c05-yin: %d bodies, %d accepted by libyang, %d of them outside the strict YIN grammar" % (len(bodies), nacc, nout))
