"""C07 — validation is an idempotent normalisation whose reported changes are exact
(src/validation.c, tree_data_new.c: lyd_new_implicit*, tree_data_common.c: lyd_is_default / lyd_np_cont_dflt_*, out.c: lyd_node_should_print).

(K) correspondence, harness `api_norm` vs model `LyModel.Valid` (op `hist`): whole histories edit -> validate -> edit -> validate
      (<= 6 validations) are replayed from an empty tree; the edits are lyd_new_* / lyd_free_tree primitives, so the flags
      LYD_NEW / LYD_DEFAULT of untouched nodes carry over.  After every validation, compared token for token: the validated tree
      (implicit nodes, auto-deletions, default flags), the returned change set (lyd_validate_*'s diff: operations, anchors,
      order; default flag of non-presence containers masked), lyd_is_default() of every node, and the tree as printed under each
      LYD_PRINT_WD_* mode with and without KEEPEMPTYCONT (printed as XML, parsed back: node set and default tags).
(S) model op `rfcdefaults`: the explicit part of the validated tree completed with the defaults RFC 7950 / 6243 put in use.
(L) laws evaluated on the implementation (op `histlaw` and the observations):
      idempotent   a second validation returns an empty change set and leaves the tree as it is
      valdiff      the change set applied (lyd_diff_apply_all) to an independent copy of the pre-validation tree gives the validated
                   tree (lyd_compare_siblings FULL_RECURSION | DEFAULTS)
      implicit     the validated tree = its explicit part + exactly the RFC defaults (nothing else added, nothing explicit removed)
      dflt-flag    a terminal node flagged default has the schema default value (lyd_is_default)
      accepts      the valid-by-construction explicit tree of every step is accepted
"""
import collections, json, os
from vlib import treegen as tg
from checks import validgen as vg
from checks import validcomp as vc
from checks.validcomp import COMP, NO_STATE, PRESENT, MULTI, OPER

LEAN_TARGETS = ["LyModel.Props.C07", "LyModel.Props.C07Valdiff", "LyModel.Props.C07Completion", "LyModel.Props.C07Fix"]
AUDIT = "Audit/C07.lean"
GENERATED = ["ValidConsts", "Consts"]
HARNESS = "api_norm"
ASSUMPTIONS = [
    "schemas from family S1x with defaults / choices / presence in any nesting; no when (v2); one module",
    "edits are sequences of lyd_new_* and lyd_free_tree; every edit is followed by a validation; the explicit content after each edit is valid",
    "the default flag of non-presence containers inside the returned change set is not compared (lyd_compare_siblings and apply ignore it)",
    "printed node sets are observed through XML print + LYD_PARSE_ONLY parse",
]
TRUSTED = ["tools/checks/validgen.py (schema / history generator)", "tools/vlib/treegen.py", "harness/treeproto.h (tree loader and canonical dump)"]


def classify(component, what, case):
    law, feat = case.get("law"), set(case.get("features", []))
    if law in ("valdiff-apply", "valdiff-eq") and "implicit-below-keyless-list" in feat:
        return "F177"
    if law == "accepts" and case.get("errors", "").startswith("NoUniq:") and "unique-default-below-case-or-presence" in feat:
        return "F175"
    if law == "accepts" and case.get("errors", "").split(":")[0] in ("NoMand", "NoMin", "NoMandChoice", "NoUniq") and "default-case-nested-in-non-default-case" in feat:
        return "F188"
    if law == "implicit" and "tree-has-nodes-the-rfc-does-not" in feat and "default-case-nested-in-non-default-case" in feat:
        return "F188"
    if law == "accepts" and case.get("errors", "").startswith("Other:") and "userord-default-recreated" in feat:
        # F194: the re-created user-ordered defaults sit in a non-presence container nested in the replaced default container
        return "F194" if "np-container-given-as-new-instance" in feat and "userord-default-recreated-nested" in feat else "F178"
    if law in ("valdiff-eq", "valdiff-apply") and "np-container-given-as-new-instance" in feat:
        return "F179"
    if law in ("valdiff-eq", "valdiff-apply") and "default-np-container-removed" in feat:
        # part (b) of F179: the leftover default non-presence container of a case goes unrecorded (repair: fixes/F400.diff)
        return "F400"
    if law == "implicit" and "missing-defaults-of-a-case-whose-data-sits-in-a-nested-choice" in feat:
        return "F180"
    if law in ("idempotent", "idempotent-tree", "implicit", "valdiff-eq") and "default-np-container-left-in-non-default-case" in feat:
        return "F189"
    return None


class Hist:
    __slots__ = ("s", "steps", "trees", "feats", "opts", "k")

    def __init__(self, s, steps, trees, feats, opts):
        self.s, self.steps, self.trees, self.feats, self.opts = s, steps, trees, feats, opts


def run(cx):
    cx.rule("hist: random S1x schemas; histories of 1..6 validations, each preceded by a random valid edit of the explicit content "
            "(create / delete / value change / case switch with and without leaving the old case to auto-deletion / content for "
            "default containers in place or as a second instance / user-ordered re-ordering) expressed as lyd_new_* + lyd_free_tree; "
            "options 0 and no-state; non-trivial = distinct (schema, history)")
    rng = cx.sub_rng("schemas")
    nsch = cx.n(300, 900)
    per = cx.n(10, 30)
    schemas, hists = [], []
    for i in range(nsch):
        s = vg.gen_schema_x(rng, i, max_depth=rng.choice([2, 3, 3]), top_mand=0.1)
        schemas.append(s)
        r = cx.sub_rng("hist%d" % i)
        g = vg.XTreeGen(r, s, density=r.choice([0.4, 0.6, 0.8]), max_inst=r.choice([2, 3]))
        hg = vg.HistGen(r, s, g)
        for _ in range(per):
            steps, trees = hg.history(r.randrange(1, 7))
            if steps:
                hists.append(Hist(s, steps, trees, list(hg.feats), r.choice([0, 0, 0, NO_STATE])))
    for k, h in enumerate(hists):
        h.k = k
    step = 1500
    for lo in range(0, len(hists), step):
        process(cx, schemas, hists[lo:lo + step])
    when_family(cx)
    case_npcont_family(cx)
    case_defaults_family(cx)
    valdiff_shapes_family(cx)


# ---- law-only family: defaults guarded by `when` (on the node, on its choice, on its case, on a non-presence container) ------------

def when_schema(rng, idx):
    S, T = tg.SNode, tg.Ty
    st = T("string")
    sel, sel2 = S("leaf", "sel", ty=st), S("leaf", "sel2", ty=st)
    kids = [sel, sel2]
    guarded = []          # (schema node that is created implicitly, guard leaf, blocking explicit leaf | None)
    if rng.random() < 0.8:
        dw = S("leaf", "dw", ty=st, dflt=b"d")
        dw.when = "../sel = 'on'"
        kids.append(dw); guarded.append((dw, sel, None))
    blockers = []
    if rng.random() < 0.9:
        x = S("leaf", "x", ty=st, dflt=b"dx")
        xl = S("leaflist", "xl", ty=st, dflts=[b"a", b"b"])
        y = S("leaf", "y", ty=T("uint8"), dflt=b"7")
        nc = S("container", "nc", kids=[y])
        inner = [x] + ([xl] if rng.random() < 0.6 else []) + ([nc] if rng.random() < 0.6 else [])
        ca = S("case", "ca", kids=inner)
        z = S("leaf", "z", ty=st)
        cb = S("case", "cb", kids=[z])
        ch = S("choice", "ch", dflt="ca", kids=[ca, cb])
        if rng.random() < 0.5:
            ch.when = "sel = 'on'"            # context node of a choice / case: the closest data ancestor
        else:
            ca.when = "sel = 'on'"
            blockers.append(z)                # data of the other case (no when there) switch the case
        kids.append(ch)
        for n in inner:
            guarded.append((n, sel, z if z in blockers else None))
    if rng.random() < 0.7:
        w = S("leaf", "w", ty=st, dflt=b"dw")
        wc = S("container", "wc", kids=[w])
        wc.when = "../sel2 = 'on'"
        kids.append(wc); guarded.append((wc, sel2, None))
    c = S("container", "c", presence=True, kids=kids)
    s = vg.XSchema("vw%02d" % idx, [c])
    return s, c, sel, sel2, guarded, blockers


def when_family(cx):
    """Implementation-only laws (the model has no XPath): implicit nodes below a `when` exist after validation exactly while the
    condition holds — on the node itself, inherited from its choice or case, or on a non-presence container — through histories
    that switch the conditions on and off; every validation must accept, be idempotent and report an exact change set."""
    rng = cx.sub_rng("when")
    schemas, hists, expect = [], [], {}
    for i in range(cx.n(60, 200)):
        s, c, sel, sel2, guarded, blockers = when_schema(rng, i)
        if not guarded:
            continue
        schemas.append(s)
        for _ in range(cx.n(6, 20)):
            state = {sel.sid: None, sel2.sid: None}
            blk = {b.sid: False for b in blockers}
            steps, exp = [], []
            first = True
            for _v in range(rng.randrange(2, 6)):
                # edit: set / change / remove the guard leaves, add or remove the data of the other case
                ops = []
                for g in (sel, sel2):
                    new = rng.choice([b"on", b"on", b"off", None]) if rng.random() < 0.7 or first else state[g.sid]
                    if new != state[g.sid]:
                        if not first:
                            if state[g.sid] is not None:
                                ops.append("D:%d/%d" % (c.sid, g.sid))
                            if new is not None:
                                ops.append("C:%d:%s" % (c.sid, tg.tok([tg.DN(g, new)])))
                        state[g.sid] = new
                if first:
                    ck = [tg.DN(g, state[g.sid]) for g in (sel, sel2) if state[g.sid] is not None]
                    ops.append("C:-:%s" % tg.tok([tg.DN(c, None, ck)]))
                    first = False
                for b in blockers:
                    want = rng.random() < 0.3
                    if want != blk[b.sid]:
                        ops.append(("C:%d:%s" % (c.sid, tg.tok([tg.DN(b, b"zz")]))) if want else ("D:%d/%d" % (c.sid, b.sid)))
                        blk[b.sid] = want
                steps += ops + ["V"]
                present = set()
                for n, g, b in guarded:
                    ch_blocked = any(blk.values()) if n.parent is not None and n.parent.kind == "case" else False
                    if state[g.sid] == b"on" and not ch_blocked:
                        present.add(n.name)
                exp.append((sorted(present), sorted(n.name for n, _, _ in guarded)))
            h = Hist(s, steps, [], [[] for _ in range(8)], 0)
            h.k = len(hists)
            hists.append(h)
            expect[h.k] = exp
    lines, lawl = [], []
    for h in hists:
        d, x = tg.hx(h.s.dsl()), tg.hx(h.s.xdsl())
        lines.append("w%d %s hist %s %s %d %s" % (h.k, COMP, d, x, h.opts, " ".join(h.steps)))
        lawl.append("wl%d %s histlaw %s %d %s" % (h.k, COMP, d, h.opts, " ".join(h.steps)))
    ri = vc.run_impl(cx, HARNESS, schemas, lines)
    rl = vc.run_impl(cx, HARNESS, schemas, lawl)
    for h in hists:
        r, l = ri.get("w%d" % h.k, ["err", "NoReply"]), rl.get("wl%d" % h.k, ["err", "NoReply"])
        if r[0] != "ok":
            if r[:2] != ["err", "Crash"]:
                cx.fail(COMP, "hist op failed: " + " ".join(r[:2]), payload(h, "harness", 0))
            continue
        f = fields(r)
        lf = fields(l) if l[0] == "ok" else {}
        for vi, (present, allg) in enumerate(expect[h.k]):
            cx.count(("when", h.s.name, tuple(h.steps), vi), True, "law:when-validation")
            e = f.get("E%d" % vi)
            if e is not None:
                cx.fail(COMP, "validation %d rejects a valid tree whose only `when`-guarded nodes are implicit: %s" % (vi, e.split(":")[0]),
                        payload(h, "when-accepts", vi, errors=e))
                break
            T = f.get("T%d" % vi)
            if T is None:
                break
            names = set()

            def walk(nodes):
                for n in nodes:
                    names.add(n.sn.name)
                    walk(n.kids)
            walk(tg.untok(h.s, T))
            got = sorted(n for n in allg if n in names)
            if got != present:
                cx.fail(COMP, "implicit nodes under `when` after validation %d: %s, expected %s" % (vi, got, present),
                        payload(h, "when-implicit", vi, tree=tg.pretty(h.s, tg.untok(h.s, T))[:2000]))
                break
            idem, same = lf.get("idem%d" % vi), lf.get("same%d" % vi)
            if idem is not None and (idem, same) != ("empty", "1"):
                cx.fail(COMP, "a second validation changes a tree with `when`-guarded defaults (%s)" % idem, payload(h, "when-idempotent", vi))
                break
            ap, eq = lf.get("apply%d" % vi), lf.get("eq%d" % vi)
            if ap is not None and (ap, eq) != ("Success", "1"):
                cx.fail(COMP, "the change set of a validation with `when`-guarded defaults is not exact (%s)" % ap, payload(h, "when-valdiff", vi))
                break


# ---- directed family: non-presence containers inside cases whose explicit content comes and goes ---------------------------------

def case_npcont_schema(rng, idx):
    S, T = tg.SNode, tg.Ty
    st = T("string")
    nm = [0]

    def name(p):
        nm[0] += 1
        return "%s%d" % (p, nm[0])

    def npcont(depth):
        kids = [S("leaf", name("a"), ty=st)]                               # no default: the explicit content
        for _ in range(rng.randrange(1, 3)):
            kids.append(S("leaf", name("b"), ty=st, dflt=rng.choice([b"d", b"e"])))
        if rng.random() < 0.3:
            kids.append(S("leaflist", name("bl"), ty=st, dflts=[b"x", b"y"]))
        if depth < 2 and rng.random() < 0.3:
            kids.append(npcont(depth + 1))
        if rng.random() < 0.3:
            rng.shuffle(kids)                                               # mostly the default-less leaf is the FIRST child
        return S("container", name("nc"), kids=kids)

    ca_kids = [npcont(1)]
    if rng.random() < 0.3:
        ca_kids.insert(rng.randrange(2), S("leaf", name("s"), ty=st))
    cases = [S("case", name("ca"), kids=ca_kids),
             S("case", name("cb"), kids=[S("leaf", name("w"), ty=st, dflt=(b"dw" if rng.random() < 0.5 else None))])]
    if rng.random() < 0.3:
        cases.append(S("case", name("cc"), kids=[npcont(1)]))
    ch = S("choice", name("ch"), kids=cases)
    if rng.random() < 0.4:
        ch.dflt = cases[1].name
    top = S("container", "top", presence=True, kids=[S("leaf", name("p"), ty=st), ch])
    return vg.XSchema("vc%02d" % idx, [top]), top


def case_npcont_family(cx):
    """Histories that give a non-presence container inside a case its explicit content, validate, take content away again
    (first child / other child / all), validate: the container must go with its case in THAT validation; through the ordinary
    pipeline (model + laws)."""
    rng = cx.sub_rng("casenp")
    schemas, hists = [], []
    for i in range(cx.n(40, 200)):
        s, top = case_npcont_schema(rng, i)
        schemas.append(s)
        conts = [n for n in s.nodes if n.kind == "container" and not n.presence and n.parent is not None and n.parent.kind == "case"]
        for _ in range(cx.n(6, 16)):
            nc = rng.choice(conts)
            expl = [k for k in nc.kids if k.kind == "leaf" and k.dflt is None]
            dfl = [k for k in nc.kids if k.kind == "leaf" and k.dflt is not None]
            if not expl:
                continue
            a = expl[0]
            kids = [tg.DN(a, b"v")]
            extra = rng.random() < 0.3 and dfl
            if extra:
                kids.append(tg.DN(dfl[0], b"zz"))
            kids.sort(key=lambda d: nc.kids.index(d.sn))
            steps = ["C:-:%s" % tg.tok([tg.DN(top, None, [tg.DN(nc, None, kids)])]), "V"]
            addr_nc = "%d/%d" % (top.sid, nc.sid)
            order = [a] + ([dfl[0]] if extra else [])
            rng.shuffle(order)
            for k in order:
                steps.append("D:%s/%d" % (addr_nc, k.sid))
                if rng.random() < 0.6:
                    steps.append("V")
            if steps[-1] != "V":
                steps.append("V")
            if rng.random() < 0.4:
                steps += ["C:%s:%s" % (addr_nc, tg.tok([tg.DN(a, b"again")])), "V"]
            h = Hist(s, steps, [], [[] for _ in range(10)], 0)
            hists.append(h)
    # F189 shape: a non-presence container in a non-default case loses its last explicit child DURING a validation (the explicit
    # data of its inner case are replaced by a new, empty non-presence container of another inner case)
    S, T = tg.SNode, tg.Ty
    for i in range(cx.n(6, 30)):
        st = T("string")
        y, z, w = S("leaf", "y", ty=st), S("leaf", "z", ty=st, dflt=(b"dz" if rng.random() < 0.4 else None)), S("leaf", "w", ty=st)
        c2 = S("container", "c2", kids=[z])
        ch2 = S("choice", "ch2", kids=[S("case", "a2", kids=[y]), S("case", "b2", kids=[c2])])
        c = S("container", "c", kids=[ch2] + ([S("leaf", "q", ty=st, dflt=b"dq")] if rng.random() < 0.5 else []))
        ch1 = S("choice", "ch1", kids=[S("case", "a1", kids=[c]), S("case", "b1", kids=[w])])
        top = S("container", "top", presence=True, kids=[ch1])
        s = vg.XSchema("vk%02d" % i, [top])
        schemas.append(s)
        steps = ["C:-:%s" % tg.tok([tg.DN(top, None, [tg.DN(c, None, [tg.DN(y, b"v")])])]), "V",
                 "C:%d/%d:%s" % (top.sid, c.sid, tg.tok([tg.DN(c2, None, [])])), "V", "V"]
        hists.append(Hist(s, steps, [], [[] for _ in range(10)], 0))
    base = 900000
    for k, h in enumerate(hists):
        h.k = base + k
    process(cx, schemas, hists)


def case_defaults_family(cx):
    """Histories over a case with SEVERAL default-bearing members around its explicit member (so that the first member of the case
    in schema order is an implicit default): a default is overridden, validated, the override deleted again, validated - the
    default must come back in THAT validation and be in the change set; also for a default leaf-list and a non-presence
    container with defaults inside the case; through the ordinary pipeline (model + laws)."""
    rng = cx.sub_rng("casedflt")
    S, T = tg.SNode, tg.Ty
    schemas, hists = [], []
    for i in range(cx.n(40, 200)):
        st = T("string")
        nm = [0]

        def name(p):
            nm[0] += 1
            return "%s%d" % (p, nm[0])
        members = [S("leaf", name("d"), ty=st, dflt=rng.choice([b"3", b"x"])) for _ in range(rng.randrange(1, 3))]
        e = S("leaf", name("e"), ty=st)
        members.insert(rng.randrange(1, len(members) + 1), e)                    # mostly NOT first
        members += [S("leaf", name("d"), ty=st, dflt=rng.choice([b"30", b"y"])) for _ in range(rng.randrange(1, 3))]
        if rng.random() < 0.4:
            members.append(S("leaflist", name("dl"), ty=st, dflts=[b"p", b"q"]))
        if rng.random() < 0.4:
            members.insert(rng.randrange(len(members) + 1), S("container", name("nc"), kids=[S("leaf", name("n"), ty=st, dflt=b"dn"), S("leaf", name("m"), ty=st)]))
        if rng.random() < 0.2:
            members.insert(0, members.pop(members.index(e)))                         # the control: explicit member first
        cases = [S("case", "auto", kids=members), S("case", "man", kids=[S("leaf", "w", ty=st)])]
        ch = S("choice", "mode", kids=cases)
        if rng.random() < 0.3:
            ch.dflt = "auto"
        top = S("container", "top", presence=True, kids=[S("leaf", "p", ty=st), ch] if rng.random() < 0.5 else [ch])
        s = vg.XSchema("vd%02d" % i, [top])
        schemas.append(s)
        dfl = [m for m in members if m.kind == "leaf" and m.dflt is not None]
        for _ in range(cx.n(4, 10)):
            steps = ["C:-:%s" % tg.tok([tg.DN(top, None, [tg.DN(e, b"on")])]), "V"]
            for m in rng.sample(dfl, rng.randrange(1, len(dfl) + 1)):
                steps.append("C:%d:%s" % (top.sid, tg.tok([tg.DN(m, b"60")])))
                if rng.random() < 0.8:
                    steps.append("V")
                steps.append("D:%d/%d" % (top.sid, m.sid))
                if rng.random() < 0.8:
                    steps.append("V")
            if steps[-1] != "V":
                steps.append("V")
            if rng.random() < 0.3:
                steps += ["D:%d/%d" % (top.sid, e.sid), "V"]
            hists.append(Hist(s, steps, [], [[] for _ in range(14)], 0))
    base = 950000
    for k, h in enumerate(hists):
        h.k = base + k
    process(cx, schemas, hists)


def valdiff_shapes_family(cx):
    """The witnesses of the `_fails` theorems of Props/C07Valdiff.lean (F177, F179 a, F194, F400 = F179 b), the same schemas and
    histories, replayed on libyang through the ordinary pipeline (model + laws), each with small variations (values, a second
    default, the position of the default-less leaf): every excluded shape of `valdiff_exact_partial` is seen to fail in the C."""
    rng = cx.sub_rng("vdshapes")
    S, T = tg.SNode, tg.Ty
    st = T("string")
    schemas, hists = [], []
    NEWINST = "np-container-given-as-new-instance"
    for i in range(cx.n(4, 12)):
        v = rng.choice([b"x", b"yy", b"1"])
        # F177: container c { config false; list l { leaf a { default }; leaf b; } }
        a, b = S("leaf", "a", ty=st, dflt=rng.choice([b"1", b"dd"]), config=False), S("leaf", "b", ty=st, config=False)
        l = S("list", "l", kids=[a, b] if i % 2 == 0 else [b, a], config=False, userord=True)
        c = S("container", "c", kids=[l], config=False)
        s = vg.XSchema("vsa%02d" % i, [c])
        schemas.append(s)
        hists.append(Hist(s, ["C:-:%s" % tg.tok([tg.DN(c, None, [tg.DN(l, None, [tg.DN(b, v)])])]), "V"], [], [[] for _ in range(4)], 0))
        # F179 a: container c { container d { leaf f { default }; leaf g { default }; } }: a second, explicit d next to the default one
        f, g = S("leaf", "f", ty=st, dflt=b"t"), S("leaf", "g", ty=st, dflt=b"x")
        d = S("container", "d", kids=[f, g] + ([S("leaf", "h", ty=st, dflt=b"h")] if i % 3 == 0 else []))
        c = S("container", "c", kids=[d])
        s = vg.XSchema("vsb%02d" % i, [c])
        schemas.append(s)
        hists.append(Hist(s, ["C:-:%s" % tg.tok([tg.DN(c, None, [])]), "V", "C:%d:%s" % (c.sid, tg.tok([tg.DN(d, None, [tg.DN(f, rng.choice([b"t", v]))])])), "V"],
                          [], [[], [NEWINST], [], []], 0))
        # F194: container c2 { leaf f16; container c17 { leaf-list ll19 { ordered-by user; default a; default x; } } }: a second, explicit c2
        f16 = S("leaf", "f16", ty=st)
        ll = S("leaflist", "ll19", ty=st, userord=True, dflts=[b"a b", b"x"] if i % 2 else [b"a", b"x"])
        c17 = S("container", "c17", kids=[ll])
        c2 = S("container", "c2", kids=[f16, c17])
        s = vg.XSchema("vsc%02d" % i, [c2])
        schemas.append(s)
        hists.append(Hist(s, ["C:-:%s" % tg.tok([tg.DN(c2, None, [])]), "V", "C:-:%s" % tg.tok([tg.DN(c2, None, [tg.DN(f16, v)])]), "V"], [], [[], [NEWINST], [], []], 0))
        # F400 (F179 b): container top { presence; choice ch { case a { container nc { leaf e; leaf d { default }; } } case b { leaf w; } } }
        e, dd, w = S("leaf", "e", ty=st), S("leaf", "d", ty=st, dflt=b"x"), S("leaf", "w", ty=st)
        nc = S("container", "nc", kids=[e, dd] if i % 2 == 0 else [dd, e])
        ch = S("choice", "ch", kids=[S("case", "a", kids=[nc]), S("case", "b", kids=[w])])
        top = S("container", "top", presence=True, kids=[ch])
        s = vg.XSchema("vsd%02d" % i, [top])
        schemas.append(s)
        hists.append(Hist(s, ["C:-:%s" % tg.tok([tg.DN(top, None, [tg.DN(nc, None, [tg.DN(e, v)])])]), "V", "D:%d/%d/%d" % (top.sid, nc.sid, e.sid), "V", "V"],
                          [], [[] for _ in range(5)], 0))
    base = 980000
    for k, h in enumerate(hists):
        h.k = base + k
    process(cx, schemas, hists)


def fields(reply):
    return dict(f.split("=", 1) for f in reply[1:] if "=" in f)


def process(cx, schemas, hists):
    lines, lawl = [], []
    for h in hists:
        d, x = tg.hx(h.s.dsl()), tg.hx(h.s.xdsl())
        lines.append("h%d %s hist %s %s %d %s" % (h.k, COMP, d, x, h.opts, " ".join(h.steps)))
        lawl.append("l%d %s histlaw %s %d %s" % (h.k, COMP, d, h.opts, " ".join(h.steps)))

    def kind(line, reply):
        if reply[0] != "ok":
            return "hist:" + " ".join(reply[:2])
        return "hist:%d-validations%s" % (sum(1 for f in reply[1:] if f[0] == "T"), "+error" if any(f[0] == "E" for f in reply[1:]) else "")
    ri, rm = vc.differential(cx, HARNESS, schemas, lines, kind)
    rl = vc.run_impl(cx, HARNESS, schemas, lawl)
    law_model(cx, schemas, hists, rl)
    # the RFC defaults of every validated tree (model only)
    specl = []
    for h in hists:
        r = ri.get("h%d" % h.k, ["err", "NoReply"])
        if r[0] != "ok":
            continue
        f = fields(r)
        d, x = tg.hx(h.s.dsl()), tg.hx(h.s.xdsl())
        for key, v in f.items():
            if key[0] == "T":
                specl.append("s%d.%s %s rfcdefaults %s %s %d %s" % (h.k, key[1:], COMP, d, x, h.opts, v))
    spec = cx.run_model(vc.heads(schemas) + specl) if specl else {}
    for h in hists:
        eval_hist(cx, h, ri.get("h%d" % h.k, ["err", "NoReply"]), rl.get("l%d" % h.k, ["err", "NoReply"]), spec)


def apply_fixes(cx):
    """the repairs of lyd_diff_apply_all that are in the tree under test (the model of component `diff` has a switch for each)"""
    return "fx=" + (",".join(sorted(f[1:] for f in ("F120", "F126", "F128") if cx.findings.get(f, {}).get("status") == "fixed")) or "-")


def law_model(cx, schemas, hists, rl):
    """(K) the laws themselves are predicted by the model: `Valid.runLaw` composes the model of the validation, of its change set
    (`judge`: lyd_val_diff_add + lyd_diff_merge_all) and of lyd_diff_apply_all (component `diff`) on the INPUT tree of every
    validation.  Compared with what libyang did (`histlaw`): idem / same / apply / exact per validation.  `sh<i>` = the hypotheses of
    Props/C07 `valdiff_exact_partial` on that input (counted)."""
    fx = apply_fixes(cx)
    ml = []
    for h in hists:
        d, x = tg.hx(h.s.dsl()), tg.hx(h.s.xdsl())
        ml.append("m%d %s histlaw %s %s %d %s %s" % (h.k, COMP, d, x, h.opts, fx, " ".join(h.steps)))
    rm = cx.run_model(vc.heads(schemas) + ml) if ml else {}
    for h in hists:
        a, b = rl.get("l%d" % h.k, ["err", "NoReply"]), rm.get("m%d" % h.k, ["err", "NoReply"])
        if a[0] != "ok" or a[:2] in (["err", "Crash"], ["err", "Timeout"]):
            continue
        if b[0] != "ok":
            cx.disagree(COMP, ml[0][:200] + " ...", a[:6], b[:6])
            continue
        fa, fb = fields(a), fields(b)
        bad = []
        nv = sum(1 for k in fb if k.startswith("apply"))
        for vi in range(nv):
            cx.count(("lawmodel", h.s.name, tuple(h.steps), h.opts, vi), True, "lawmodel:validation")
            sh = fb.get("sh%d" % vi, "------")
            keyless, twin, incase, lost, excl, exact = (c == "1" for c in sh[:6])
            fresh, toponly, unchanged = (c == "1" for c in (sh[6:9] if len(sh) >= 9 else "---"))
            # which PROVED theorem of Props/C07Valdiff.lean speaks about this input (hypotheses evaluated by the model)
            topany = len(sh) >= 15 and sh[14] == "1"
            thm = "valdiff_exact_unchanged" if unchanged else ("valdiff_exact_partial_fresh" if fresh and toponly else
                                                             ("valdiff_exact_partial_top" if topany else None))
            cx.dist["valdiff-proved:" + (thm or ("none(" + ("top-level-only-with-deletions-or-np-risk" if toponly else
                                                         "changes-below-top-level" + ("" if fresh else "-not-fresh")) + ")"))] += 1
            if thm and not exact:
                cx.fail(COMP, "model: the statement of the proved theorem %s evaluates to false on an input inside its hypotheses" % thm,
                        payload(h, "valdiff-model", vi, more=["model-law", thm]))
            cx.dist["valdiff-hyp:" + ("excluded(" + "+".join(n for n, c in (("keyless-change", keyless), ("np-twin", twin), ("np-in-case", incase)) if c) + ")" if excl else "satisfied")] += 1
            cx.dist["valdiff-model:" + ("exact" if exact else "NOT-exact") + ("/excluded" if excl else "/hyp")] += 1
            if not excl and not exact:
                # the statement of valdiff_exact_partial fails in the MODEL on an input inside its hypotheses
                cx.fail(COMP, "model: apply input (validateDiff input) differs from validate input on an input that satisfies the hypotheses of valdiff_exact_partial",
                        payload(h, "valdiff-model", vi, more=["model-law"]))
            # Props/C07Completion.lean: hypotheses and statements of the whole-tree theorems on this input
            if len(sh) >= 13:
                nch, nst, exh, exs = (c == "1" for c in sh[9:13])
                allh = len(sh) >= 14 and sh[13] == "1"
                choicefree = not any(n.kind == "choice" for n in h.s.nodes)
                cx.dist["implicit-tree:" + ("implicit_exact_tree-applies" + ("(choice-free)" if choicefree else "(with-choice)") if allh else
                                            "nochoice-theorem-applies" if nch else "explicit-half-applies" if exh else
                                            "none(" + ("not-fresh" if not fresh else "schema-with-choice" if not choicefree else "other") + ")")] += 1
                cx.dist["implicit-tree-model:validate=rfcComplete " + ("holds" if nst else "FAILS")] += 1
                if ((nch or allh) and not nst) or (exh and not exs):
                    cx.fail(COMP, "model: the statement of %s evaluates to false on an input inside its hypotheses" %
                            ("implicit_exact_tree" if (nch or allh) and not nst else "implicit_exact_tree_explicit"),
                            payload(h, "implicit-model", vi, more=["model-law"]))
            for key in ("idem", "same", "apply", "exact"):
                x, y = fa.get("%s%d" % (key, vi)), fb.get("%s%d" % (key, vi))
                if key == "idem" and x is not None and x not in ("empty", "nonempty"):
                    x = "E"
                if y == "dup" or (key == "exact" and fa.get("apply%d" % vi) != "Success"):
                    cx.dist["lawmodel:not-compared(%s)" % (y if y == "dup" else "apply-failed")] += 1
                    continue
                if x != y:
                    bad.append("%s%d impl=%s model=%s" % (key, vi, x, y))
        if bad:
            cx.disagree(COMP, ("l%d %s histlaw %s %d %s" % (h.k, COMP, tg.hx(h.s.dsl()), h.opts, " ".join(h.steps)))[:6000], bad[:8], [x for x in b if x.startswith("sh")][:8])


def payload(h, law, vi, **kw):
    p = {"law": law, "validation": vi, "opts": h.opts, "steps": h.steps, "features": sorted(set(h.feats[vi] if vi < len(h.feats) else []) | set(kw.pop("more", []))),
         "history_text": history_text(h)[:6000]}
    p.update(vc.schema_payload(h.s))
    p.update(kw)
    return p


def history_text(h):
    out = []
    for st in h.steps:
        if st[0] == "C":
            _, ad, dm = st.split(":")
            out.append("create below %s:\n    %s" % (ad, tg.pretty(h.s, tg.untok(h.s, dm)).replace("\n", "\n    ")))
        else:
            out.append(st)
    return "\n".join(out)


def ops_before(h, vi):
    """the edit steps in front of validation number vi"""
    out, k = [], 0
    for st in h.steps:
        if st == "V":
            if k == vi:
                return out
            k += 1
            out = []
        else:
            out.append(st)
    return out


def default_np_container_removed(s, prev_tok, cur_tok, ops):
    """a non-presence container of the previous validated tree whose place is empty in this one although no edit step deleted it:
    validation removed it (as a default node: next to an explicit instance, or as the leftover of a case that no longer exists)"""
    def conts(tok):
        out = set()

        def walk(nodes, pre):
            for n in nodes:
                p = pre + ((n.sn.sid, n.val if n.sn.kind == "leaflist" else None, tuple(k.val for k in n.kids[:len(n.sn.keys)]) if n.sn.kind == "list" else None),)
                if n.sn.np_cont():
                    out.add(p)
                walk(n.kids, p)
        walk(tg.untok(s, tok), ())
        return out
    deleted_sids = set()
    for st in ops:
        if st.startswith("D:"):
            last = st[2:].split("/")[-1]
            deleted_sids.add(int(last.split("[")[0].split("=")[0].split("#")[0]))
    gone = conts(prev_tok) - conts(cur_tok)
    return any(not any(step[0] in deleted_sids for step in p) for p in gone)


def schema_features(s):
    from checks import c02
    f = list(c02.features(s))
    for n in s.nodes:
        # a choice with a default case, directly inside a case that is not the default case of its own choice
        if n.kind == "choice" and n.dflt and n.parent is not None and n.parent.kind == "case" and n.parent.parent.dflt != n.parent.name:
            f.append("default-case-nested-in-non-default-case")
            break
    return f


def tree_features(s, tree_tok):
    """features of a validated tree"""
    f = set()

    def walk(nodes, keyless, npdepth=0):
        groups = {}
        for n in nodes:
            if keyless and n.flags & tg.F_DFLT:
                f.add("implicit-below-keyless-list")
            groups.setdefault(n.sn.sid, []).append(n)
            if n.sn.np_cont() and (n.flags & tg.F_DFLT) and n.sn.parent is not None and n.sn.parent.kind == "case" and \
                    not any(not (k.flags & tg.F_DFLT) for k in n.kids):
                ch = n.sn.parent.parent
                if ch.dflt != n.sn.parent.name:
                    # a default-flagged non-presence container of a NON-default case survived the validation although the
                    # case has no explicit data left (it lost its last explicit child during this validation: F189)
                    f.add("default-np-container-left-in-non-default-case")
            walk(n.kids, keyless or (n.sn.kind == "list" and not n.sn.keys), npdepth + 1 if n.sn.np_cont() and (n.flags & tg.F_DFLT) else 0)
        for g in groups.values():
            if g[0].sn.kind in ("leaflist", "list") and g[0].sn.is_userord() and any(x.flags & tg.F_DFLT for x in g):
                f.add("userord-default-instances")
                if npdepth >= 2:
                    f.add("userord-default-instances-in-nested-np-container")
    walk(tg.untok(s, tree_tok), False)
    return f


def implicit_diff_features(s, tree_tok, rfc_tok):
    """how the validated tree differs from explicit part + RFC defaults"""
    def paths(tok):
        out = set()

        def walk(nodes, pre):
            for n in nodes:
                p = pre + ((n.sn.sid, n.val if n.sn.kind == "leaflist" else None, tuple(k.val for k in n.kids[:len(n.sn.keys)]) if n.sn.kind == "list" else None),)
                out.add((p, bool(n.flags & tg.F_DFLT) and n.sn.is_term()))
                walk(n.kids, p)
        walk(tg.untok(s, tok), ())
        return out
    a, b = paths(tree_tok), paths(rfc_tok)
    f = set()
    missing = [p for p in b - a]
    extra = [p for p in a - b]
    if extra:
        f.add("tree-has-nodes-the-rfc-does-not")

    def in_case_with_nested_choice(sid):
        """some case above the node (through choices, cases, non-presence containers) also holds a nested choice"""
        p = s.nodes[sid].parent
        while p is not None:
            if p.kind == "list" or (p.kind == "container" and p.presence):
                return False
            if p.kind == "case" and any(k.kind == "choice" for k in p.kids):
                return True
            p = p.parent
        return False
    if missing and not extra and all(in_case_with_nested_choice(p[0][-1][0]) or any(in_case_with_nested_choice(x[0]) for x in p[0]) for p in missing):
        f.add("missing-defaults-of-a-case-whose-data-sits-in-a-nested-choice")
    return f


def eval_hist(cx, h, r, l, spec):
    if r[0] != "ok":
        if r[:2] != ["err", "Crash"]:
            cx.fail(COMP, "hist op failed: " + " ".join(r[:2]), payload(h, "harness", 0))
        return
    if any(f.startswith("BadStep") for f in r[1:]):
        cx.dist["generator: step cannot be carried out"] += 1
    f = fields(r)
    nv = sum(1 for k in f if k[0] == "T")
    for vi in range(nv + 1):
        e = f.get("E%d" % vi)
        if e is not None:
            # every explicit tree of the history is valid by construction
            if h.opts & NO_STATE and all(x.startswith("UnexpState:") for x in e.split(";")):
                cx.dist["no-state: state data rejected"] += 1
                continue
            prev = f.get("T%d" % (vi - 1), "-") if vi else "-"
            pf = tree_features(h.s, prev)
            more = ["userord-default-recreated"] if "userord-default-instances" in pf else []
            more += ["userord-default-recreated-nested"] if "userord-default-instances-in-nested-np-container" in pf else []
            more += schema_features(h.s)
            cx.fail(COMP, "validation %d of the history rejects a valid tree: %s" % (vi, e.split(":")[0]), payload(h, "accepts", vi, errors=e, more=more))
    lf = fields(l) if l[0] == "ok" else {}
    for vi in range(nv):
        T = f["T%d" % vi]
        feats = tree_features(h.s, T)
        cx.count(("law", h.s.name, tuple(h.steps), h.opts, vi), True, "law:validation")
        # ---- dflt-flag: a node flagged default has the schema default value
        bits = f.get("F%d" % vi, "-")
        flat = []

        def walk(nodes):
            for n in nodes:
                flat.append(n)
                walk(n.kids)
        walk(tg.untok(h.s, T))
        if bits != "-" and len(bits) == len(flat):
            for n, b in zip(flat, bits):
                if n.sn.is_term() and (n.flags & tg.F_DFLT) and b != "1":
                    cx.fail(COMP, "a node flagged default does not have the schema default value", payload(h, "dflt-flag", vi, node=n.sn.name))
                    break
        # ---- implicit: validated tree = explicit part + RFC defaults
        sp = spec.get("s%d.%d" % (h.k, vi))
        if sp and sp[0] == "ok":
            cx.dist["implicit:" + ("exact" if sp[1] == T else "DIFFERS")] += 1
            if sp[1] != T:
                cx.fail(COMP, "the implicit nodes of the validated tree are not exactly the defaults RFC 7950 puts in use",
                        payload(h, "implicit", vi, tree=tg.pretty(h.s, tg.untok(h.s, T))[:3000], rfc=tg.pretty(h.s, tg.untok(h.s, sp[1]))[:3000],
                                more=sorted(feats | implicit_diff_features(h.s, T, sp[1]) | set(schema_features(h.s)))))
        # ---- idempotent / valdiff
        if not lf:
            continue
        idem, same = lf.get("idem%d" % vi), lf.get("same%d" % vi)
        if idem is None:
            continue
        cx.dist["idempotent:" + ("holds" if (idem, same) == ("empty", "1") else "FAILS")] += 1
        if idem != "empty":
            cx.fail(COMP, "a second validation reports changes (%s)" % idem, payload(h, "idempotent", vi, more=sorted(feats)))
        elif same != "1":
            cx.fail(COMP, "a second validation changes the tree", payload(h, "idempotent-tree", vi, more=sorted(feats)))
        ap, eq = lf.get("apply%d" % vi), lf.get("eq%d" % vi)
        cx.dist["valdiff:" + ("exact" if (ap, eq) == ("Success", "1") else "FAILS")] += 1
        cx.dist["valdiff-dump-equal:" + str(lf.get("exact%d" % vi))] += 1
        if ap != "Success":
            cx.fail(COMP, "the change set of the validation cannot be applied to the pre-validation tree (%s)" % ap, payload(h, "valdiff-apply", vi, more=sorted(feats)))
        elif eq != "1":
            more = set(feats)
            if vi and default_np_container_removed(h.s, f["T%d" % (vi - 1)], T, ops_before(h, vi)):
                more.add("default-np-container-removed")
            cx.fail(COMP, "the change set applied to the pre-validation tree does not give the validated tree", payload(h, "valdiff-eq", vi, more=sorted(more)))
    if l[0] != "ok" and l[:2] != ["err", "Crash"]:
        cx.fail(COMP, "histlaw op failed: " + " ".join(l[:2]), payload(h, "harness", 0))


def replay(cx, pl):
    f = pl.get("failure", {}).get("case") or {}
    if "schema_dsl" not in f or "steps" not in f:
        return run(cx)
    s = vc.ReplaySchema(f["schema_dsl"], f.get("schema_xdsl", ""), f["schema_yang"])
    h = Hist(s, f["steps"], [], [f.get("features", [])] * 8, f.get("opts") or 0)
    h.k = 0
    process(cx, [s], [h])
