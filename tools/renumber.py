#!/usr/bin/env python3
"""usage: tools/renumber.py <worktree> old=new ...  — rename finding ids in a component branch before merging (and commit there)"""
import glob, os, re, subprocess, sys
wt = sys.argv[1]
pairs = [a.split("=") for a in sys.argv[2:]]
tmp = {o: "F__TMP%d__" % i for i, (o, n) in enumerate(pairs)}
files = subprocess.check_output(["git", "-C", wt, "diff", "--name-only", "e357427", "HEAD"]).decode().split()
for f in files:
    p = os.path.join(wt, f)
    if not os.path.isfile(p) or f.startswith("evidence/"):
        continue
    try:
        s = open(p).read()
    except UnicodeDecodeError:
        continue
    t = s
    for o, n in pairs:
        t = re.sub(r"\b%s\b" % o, tmp[o], t)
    for o, n in pairs:
        t = t.replace(tmp[o], n)
    if t != s:
        open(p, "w").write(t); print("renamed in", f)
for o, n in pairs:
    a, b = os.path.join(wt, "fixes", o + ".diff"), os.path.join(wt, "fixes", "__" + n + ".diff")
    if os.path.exists(a):
        subprocess.check_call(["git", "-C", wt, "mv", a, b])
for o, n in pairs:
    b = os.path.join(wt, "fixes", "__" + n + ".diff")
    if os.path.exists(b):
        subprocess.check_call(["git", "-C", wt, "mv", b, os.path.join(wt, "fixes", n + ".diff")])
subprocess.check_call(["git", "-C", wt, "add", "-A"])
subprocess.call(["git", "-C", wt, "commit", "-qm", "renumber findings for integration: " + " ".join(sys.argv[2:])])
