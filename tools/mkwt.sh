#!/bin/sh
# usage: tools/mkwt.sh <name>   — scratch worktrees for one component branch (outside /repo and /verif)
set -e
n="$1"; d=/var/tmp/wt/$n
mkdir -p "$d"
git -C /verif worktree add -q -b "w/$n" "$d/verif" HEAD
git -C /repo worktree add -q --detach "$d/repo" HEAD
echo "$d"
