#!/usr/bin/env python3
"""usage: tools/revalidate_seeds.py [N slots] [seed-name-filter]  — re-run the owning check against every stored seeded regression on
the CURRENT heads, in parallel: each slot has its own copy of /verif (git worktree of HEAD + warm .lake) and its own worktree of
/repo, so nothing in /verif or /repo is touched.  Writes /var/tmp/par/result.json (seed -> {applies, rc, last line})."""
import json, os, subprocess, sys, glob, shutil, threading, queue
N = int(sys.argv[1]) if len(sys.argv) > 1 else 6
flt = sys.argv[2] if len(sys.argv) > 2 else ""
ROOT = "/var/tmp/par"
seeds = []
for d in sorted(glob.glob("/verif/seeded/*/meta.json")):
    m = json.load(open(d)); name = os.path.basename(os.path.dirname(d))
    if m.get("status") == "obsolete" or flt not in name: continue
    seeds.append((name, m["property"]))
q = queue.Queue()
for s in seeds: q.put(s)
res = {}
def sh(cmd, **kw): return subprocess.run(cmd, shell=True, stdout=subprocess.PIPE, stderr=subprocess.STDOUT, text=True, **kw)
def slot(i):
    base = "%s/s%d" % (ROOT, i); v = base + "/verif"; r = base + "/repo"
    sh("git -C /verif worktree remove --force %s; git -C /repo worktree remove --force %s; rm -rf %s; mkdir -p %s" % (v, r, base, base))
    sh("git -C /verif worktree add -q --detach %s HEAD && cp -a /verif/lean/.lake %s/lean/.lake" % (v, v))
    sh("git -C /repo worktree add -q --detach %s HEAD" % r)
    env = dict(os.environ, VERIF_REPO=r, VERIF_BUILD=base + "/build", VERIF_EVIDENCE=base + "/ev", VERIF_REPLAYS=base + "/rp", VERIF_SEED="0")
    while True:
        try: name, prop = q.get_nowait()
        except queue.Empty: break
        sh("git -C %s checkout -q -- . && git -C %s clean -fdq" % (r, r))
        a = sh("git -C %s apply /verif/seeded/%s/patch.diff" % (r, name))
        if a.returncode != 0:
            res[name] = {"property": prop, "applies": False, "rc": None, "line": a.stdout.strip()[-200:]}
            print(name, "PATCH DOES NOT APPLY", flush=True); continue
        p = sh("python3 %s/tools/vcheck.py %s --tier quick" % (v, prop), env=env)
        last = [l for l in p.stdout.splitlines() if l.startswith(prop + " quick")]
        nviol = sum(1 for l in p.stdout.splitlines() if l.startswith("VIOLATION"))
        res[name] = {"property": prop, "applies": True, "rc": p.returncode, "violations": nviol, "line": (last[-1] if last else p.stdout[-300:])[:260]}
        print(name, "rc=%s" % p.returncode, (last[-1] if last else "?")[:160], flush=True)
        json.dump(res, open(ROOT + "/result.json", "w"), indent=1)
    sh("git -C /verif worktree remove --force %s; git -C /repo worktree remove --force %s; rm -rf %s" % (v, r, base))
os.makedirs(ROOT, exist_ok=True)
ts = [threading.Thread(target=slot, args=(i,)) for i in range(N)]
for t in ts: t.start()
for t in ts: t.join()
json.dump(res, open(ROOT + "/result.json", "w"), indent=1)
print("done: %d seeds, caught %d, missed %d, not applying %d" % (len(res), sum(1 for x in res.values() if x["rc"] == 1), sum(1 for x in res.values() if x["rc"] == 0), sum(1 for x in res.values() if not x["applies"])))
